use tau_engine::{Rule, Document, Value};
use tau_engine::core::optimiser;
fn try_rule(y: &str, docs: &[&str]) {
    let rule = match Rule::from_str(y) { Ok(r) => r, Err(e) => { println!("LOAD ERR {}", e); return; } };
    for (c,s,r,m) in [(true,false,false,false),(true,false,false,true),(true,true,true,true),(false,false,false,true),(false,true,false,false),(false,true,true,true)] {
        let o = Rule::from_str(y).unwrap().optimise(tau_engine::Optimisations{coalesce:c,shake:s,rewrite:r,matrix:m});
        for d in docs {
            let v: serde_json::Value = serde_json::from_str(d).unwrap(); println!("EXPR {} IDS {:?}", o.detection.expression, o.detection.identifiers.iter().map(|(k,v)| format!("{}={}",k,v)).collect::<Vec<_>>());
            let a = rule.matches(&v);
            let b = std::panic::catch_unwind(|| o.matches(&v));
            println!("opt c{} s{} r{} m{} doc {} plain={} opt={:?}", c,s,r,m, d, a, b);
        }
    }
}
fn main() {
    let y = std::env::args().nth(1).unwrap();
    let y = std::fs::read_to_string(y).unwrap();
    let docs: Vec<String> = std::env::args().skip(2).collect();
    let d: Vec<&str> = docs.iter().map(|s| s.as_str()).collect();
    try_rule(&y, &d);
}

// Appended (under cfg(kani)) to a scratch copy of src/yaml.rs: full-domain, loop-free proofs that a serde_yaml number
// becomes the value kind with the same numeric value and signedness (C11): non-negative integers UInt over the whole
// u64 range, negative integers Int, floats Float with the same bits.
#[cfg(kani)]
mod verif_kani_c11_yaml {
    use super::*;

    #[kani::proof]
    fn c11_yaml_unsigned() {
        let u: u64 = kani::any();
        let y = Yaml::Number(serde_yaml::Number::from(u));
        assert!(matches!(y.as_value(), Value::UInt(v) if v == u));
    }

    #[kani::proof]
    fn c11_yaml_signed() {
        let i: i64 = kani::any();
        let y = Yaml::Number(serde_yaml::Number::from(i));
        if i < 0 {
            assert!(matches!(y.as_value(), Value::Int(v) if v == i));
        } else {
            assert!(matches!(y.as_value(), Value::UInt(v) if v == i as u64));
        }
    }

    #[kani::proof]
    fn c11_yaml_float_bool_null() {
        let f: f64 = f64::from_bits(kani::any());
        let y = Yaml::Number(serde_yaml::Number::from(f));
        assert!(matches!(y.as_value(), Value::Float(v) if v.to_bits() == f.to_bits() || (v.is_nan() && f.is_nan())));
        let b: bool = kani::any();
        assert!(matches!(Yaml::Bool(b).as_value(), Value::Bool(v) if v == b));
        assert!(matches!(Yaml::Null.as_value(), Value::Null));
    }
}

// Appended (under cfg(kani)) to a scratch copy of src/json.rs (feature json): full-domain, loop-free proofs that a serde_json number
// becomes the value kind with the same numeric value and signedness (C11): non-negative integers UInt over the whole
// u64 range, negative integers Int, floats Float with the same bits.
#[cfg(kani)]
mod verif_kani_c11_json {
    use super::*;

    #[kani::proof]
    fn c11_json_unsigned() {
        let u: u64 = kani::any();
        let y = Json::Number(Number::from(u));
        assert!(matches!(y.as_value(), Value::UInt(v) if v == u));
    }

    #[kani::proof]
    fn c11_json_signed() {
        let i: i64 = kani::any();
        let y = Json::Number(Number::from(i));
        if i < 0 {
            assert!(matches!(y.as_value(), Value::Int(v) if v == i));
        } else {
            assert!(matches!(y.as_value(), Value::UInt(v) if v == i as u64));
        }
    }

    #[kani::proof]
    fn c11_json_float_bool_null() {
        let f: f64 = f64::from_bits(kani::any());
        if let Some(n) = Number::from_f64(f) {
            let y = Json::Number(n);
            assert!(matches!(y.as_value(), Value::Float(v) if v.to_bits() == f.to_bits()));
        }
        let b: bool = kani::any();
        assert!(matches!(Json::Bool(b).as_value(), Value::Bool(v) if v == b));
        assert!(matches!(Json::Null.as_value(), Value::Null));
    }
}

// Appended (under cfg(kani)) to a scratch copy of src/solver.rs.  The placeholder below is the comparison-table block
// `match (x, *op, y) { ... }` sliced verbatim from solve_expression on every run.
#[cfg(kani)]
mod verif_kani_c09 {
    use super::*;

    // the sliced block, wrapped in a function over the operand values it matches on
    fn cmp_table(x: Value<'static>, op: &BoolSym, y: Value<'static>) -> bool {
        let res = @TABLE@;
        res
    }

    fn any_scalar() -> Value<'static> {
        let tag: u8 = kani::any();
        kani::assume(tag < 4);
        match tag {
            0 => Value::Bool(kani::any()),
            1 => Value::Float(f64::from_bits(kani::any())),
            2 => Value::Int(kani::any()),
            _ => Value::UInt(kani::any()),
        }
    }

    fn any_cmp_op() -> BoolSym {
        let sel: u8 = kani::any();
        kani::assume(sel < 5);
        match sel {
            0 => BoolSym::Equal,
            1 => BoolSym::GreaterThan,
            2 => BoolSym::GreaterThanOrEqual,
            3 => BoolSym::LessThan,
            _ => BoolSym::LessThanOrEqual,
        }
    }

    // mathematical value of an integer operand
    fn as_math(v: &Value<'static>) -> Option<i128> {
        match v {
            Value::Int(i) => Some(*i as i128),
            Value::UInt(u) => Some(*u as i128),
            _ => None,
        }
    }

    fn math_rel(op: &BoolSym, a: i128, b: i128) -> bool {
        match op {
            BoolSym::Equal => a == b,
            BoolSym::GreaterThan => a > b,
            BoolSym::GreaterThanOrEqual => a >= b,
            BoolSym::LessThan => a < b,
            BoolSym::LessThanOrEqual => a <= b,
            _ => false,
        }
    }

    fn ieee_rel(op: &BoolSym, a: f64, b: f64) -> bool {
        match op {
            BoolSym::Equal => a == b,
            BoolSym::GreaterThan => a > b,
            BoolSym::GreaterThanOrEqual => a >= b,
            BoolSym::LessThan => a < b,
            BoolSym::LessThanOrEqual => a <= b,
            _ => false,
        }
    }

    /// C09: over the whole i64/u64/f64 domain the table is true only when the stated relation holds
    /// (no wrap-around), never reaches unreachable!(), and is exact for same-kind operands.
    #[kani::proof]
    fn c09_table_sound() {
        let x = any_scalar();
        let y = any_scalar();
        let op = any_cmp_op();
        let (mx, my) = (as_math(&x), as_math(&y));
        let (fx, fy) = (match x { Value::Float(f) => Some(f), _ => None }, match y { Value::Float(f) => Some(f), _ => None });
        let same_int_kind = matches!((&x, &y), (Value::Int(_), Value::Int(_)) | (Value::UInt(_), Value::UInt(_)));
        let r = cmp_table(x, &op, y);
        if let (Some(a), Some(b)) = (mx, my) {
            // integers: true only when the mathematical relation holds; exact when both have the same signedness
            if r { assert!(math_rel(&op, a, b)); }
            if same_int_kind { assert!(r == math_rel(&op, a, b)); }
        }
        if let (Some(a), Some(b)) = (fx, fy) {
            // doubles: exactly the IEEE-754 relation (NaN compares false, +0 == -0)
            assert!(r == ieee_rel(&op, a, b));
        }
    }

    /// C09: for present, non-NaN operands of the same numeric kind exactly one of <, =, > holds and
    /// >= / <= are their unions.
    #[kani::proof]
    fn c09_trichotomy() {
        let kind: u8 = kani::any();
        kani::assume(kind < 3);
        let (x, y): (Value<'static>, Value<'static>) = match kind {
            0 => (Value::Int(kani::any()), Value::Int(kani::any())),
            1 => (Value::UInt(kani::any()), Value::UInt(kani::any())),
            _ => {
                let a = f64::from_bits(kani::any());
                let b = f64::from_bits(kani::any());
                kani::assume(!a.is_nan() && !b.is_nan());
                (Value::Float(a), Value::Float(b))
            }
        };
        let lt = cmp_table(x.clone(), &BoolSym::LessThan, y.clone());
        let eq = cmp_table(x.clone(), &BoolSym::Equal, y.clone());
        let gt = cmp_table(x.clone(), &BoolSym::GreaterThan, y.clone());
        let ge = cmp_table(x.clone(), &BoolSym::GreaterThanOrEqual, y.clone());
        let le = cmp_table(x, &BoolSym::LessThanOrEqual, y);
        assert!((lt as u8) + (eq as u8) + (gt as u8) == 1);
        assert!(ge == (gt || eq));
        assert!(le == (lt || eq));
    }

    /// Rust cast facts the cast arms rely on (the Verus prelude assumes them): float->int saturates, NaN -> 0,
    /// and the u64 guard makes `as i64` value-preserving.
    #[kani::proof]
    fn c09_cast_facts() {
        assert!(f64::MAX as i64 == i64::MAX);
        assert!(f64::MAX as u64 == u64::MAX);
        assert!(f64::NAN as i64 == 0);
        let u: u64 = kani::any();
        if u <= i64::MAX as u64 { assert!((u as i64) as i128 == u as i128); }
        let f = f64::from_bits(kani::any());
        let i = f as i64;
        if f.is_nan() { assert!(i == 0); }
        if f >= 9.3e18 { assert!(i == i64::MAX); }
        if f <= -9.3e18 { assert!(i == i64::MIN); }
    }
}

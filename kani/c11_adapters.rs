// Appended (under cfg(kani)) to a scratch copy of src/value.rs: full-domain, loop-free proofs that every
// primitive adapter keeps kind, numeric value and signedness (C11).
#[cfg(kani)]
mod verif_kani_c11 {
    use super::*;

    #[kani::proof]
    fn c11_signed_adapters() {
        let a: i8 = kani::any();
        assert!(matches!(a.as_value(), Value::Int(v) if v as i128 == a as i128));
        let b: i16 = kani::any();
        assert!(matches!(b.as_value(), Value::Int(v) if v as i128 == b as i128));
        let c: i32 = kani::any();
        assert!(matches!(c.as_value(), Value::Int(v) if v as i128 == c as i128));
        let d: i64 = kani::any();
        assert!(matches!(d.as_value(), Value::Int(v) if v == d));
        let e: isize = kani::any();
        assert!(matches!(e.as_value(), Value::Int(v) if v as i128 == e as i128));
    }

    #[kani::proof]
    fn c11_unsigned_adapters() {
        let a: u8 = kani::any();
        assert!(matches!(a.as_value(), Value::UInt(v) if v as u128 == a as u128));
        let b: u16 = kani::any();
        assert!(matches!(b.as_value(), Value::UInt(v) if v as u128 == b as u128));
        let c: u32 = kani::any();
        assert!(matches!(c.as_value(), Value::UInt(v) if v as u128 == c as u128));
        let d: u64 = kani::any();
        assert!(matches!(d.as_value(), Value::UInt(v) if v == d));
        let e: usize = kani::any();
        assert!(matches!(e.as_value(), Value::UInt(v) if v as u128 == e as u128));
    }

    #[kani::proof]
    fn c11_float_bool_unit_option_adapters() {
        let f: f64 = f64::from_bits(kani::any());
        assert!(matches!(f.as_value(), Value::Float(v) if v.to_bits() == f.to_bits() || (v.is_nan() && f.is_nan())));
        let g: f32 = f32::from_bits(kani::any());
        // widening f32 -> f64 is exact
        assert!(matches!(g.as_value(), Value::Float(v) if (v.is_nan() && g.is_nan()) || (v as f32).to_bits() == g.to_bits()));
        let b: bool = kani::any();
        assert!(matches!(b.as_value(), Value::Bool(v) if v == b));
        assert!(matches!(().as_value(), Value::Null));
        let o: Option<u64> = if kani::any() { Some(kani::any()) } else { None };
        match o {
            Some(x) => assert!(matches!(o.as_value(), Value::UInt(v) if v == x)),
            None => assert!(matches!(o.as_value(), Value::Null)),
        }
        let oi: Option<i32> = if kani::any() { Some(kani::any()) } else { None };
        match oi {
            Some(x) => assert!(matches!(oi.as_value(), Value::Int(v) if v == x as i64)),
            None => assert!(matches!(oi.as_value(), Value::Null)),
        }
    }

    // to_i64 (used by documents that widen): value-preserving or None, never wrapped
    #[kani::proof]
    fn c11_to_i64() {
        let u: u64 = kani::any();
        match Value::UInt(u).to_i64() {
            Some(v) => assert!(v as i128 == u as i128),
            None => assert!(u > i64::MAX as u64),
        }
        let i: i64 = kani::any();
        assert!(Value::Int(i).to_i64() == Some(i));
    }
}

#!/bin/bash
# runs every seeded mutant against the checks of the property it breaks (plus related ones); prints a table
cd /verif
rm -rf /tmp/ev.bak.$$; cp -r evidence /tmp/ev.bak.$$   # checks on a changed tree must not leave their evidence behind
declare -A REL=( [C01]="C01" [C02]="C02 C07 C09" [C03]="C03 C01" [C04]="C04 C07" [C05]="C05" [C06]="C06 C08" [C07]="C07 C02 C17" [C08]="C08" [C09]="C09" [C10]="C10 C16" [C11]="C11" [C13]="C13" [C15]="C15" [C16]="C16 C10" [C17]="C17 C01 C07" )
for d in seeded/*/; do n=$(basename $d); p=${n%%-*}; 
  git -C /repo apply /verif/$d/patch.diff 2>/dev/null || { echo "$n: patch does not apply"; continue; }
  res=""
  for c in ${REL[$p]}; do out=$(./check $c 2>&1); rc=$?; res="$res $c=$rc"; done
  git -C /repo checkout -- .
  echo "$n:$res"
done
rm -rf /verif/evidence; mv /tmp/ev.bak.$$ /verif/evidence

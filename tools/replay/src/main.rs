//! usage: replay <replay file>
//! Reads the replay file written by ./check.  If it carries a Kani counterexample for the comparison table
//! (`kind: cmp`: two scalar operands given by kind + bits, and an operator), evaluates `x <op> y` with the real
//! solver - the operands are two document fields, so they reach the table exactly as given - and compares the
//! verdict with the stated relation (mathematical integers without wrap-around, IEEE-754 for doubles).
//! exit 1: the real crate disagrees with the oracle on this input (the violation is reproduced);
//! exit 0: it agrees; exit 2: nothing to replay / not replayable through the public interface.
use std::borrow::Cow;
use tau_engine::core::parser::{BoolSym, Expression};
use tau_engine::{Document, Value};

#[derive(Clone, Copy, Debug)]
enum Scalar { Bool(bool), Float(f64), Int(i64), UInt(u64) }

struct Doc { x: Scalar, y: Scalar }

fn val(s: Scalar) -> Value<'static> {
    match s {
        Scalar::Bool(b) => Value::Bool(b),
        Scalar::Float(f) => Value::Float(f),
        Scalar::Int(i) => Value::Int(i),
        Scalar::UInt(u) => Value::UInt(u),
    }
}

impl Document for Doc {
    fn find(&self, key: &str) -> Option<Value<'_>> {
        match key { "x" => Some(val(self.x)), "y" => Some(val(self.y)), _ => None }
    }
}

fn scalar(j: &serde_json::Value) -> Option<Scalar> {
    let bits = j.get("bits")?.as_u64()?;
    Some(match j.get("kind")?.as_str()? {
        "Bool" => Scalar::Bool(bits & 1 == 1),
        "Float" => Scalar::Float(f64::from_bits(bits)),
        "Int" => Scalar::Int(bits as i64),
        "UInt" => Scalar::UInt(bits),
        _ => return None,
    })
}

fn rel<T: PartialOrd>(op: &str, a: T, b: T) -> bool {
    match op {
        "Equal" => a == b,
        "GreaterThan" => a > b,
        "GreaterThanOrEqual" => a >= b,
        "LessThan" => a < b,
        "LessThanOrEqual" => a <= b,
        _ => false,
    }
}

fn main() {
    let path = std::env::args().nth(1).expect("usage: replay <file>");
    let j: serde_json::Value = serde_json::from_str(&std::fs::read_to_string(&path).expect("read")).expect("json");
    let cx = match j.get("counterexample") { Some(c) if !c.is_null() => c.clone(), _ => { println!("no counterexample in the replay file"); std::process::exit(2) } };
    if cx.get("kind").and_then(|k| k.as_str()) != Some("cmp") { println!("unknown counterexample kind"); std::process::exit(2) }
    let (x, y) = match (scalar(&cx["x"]), scalar(&cx["y"])) { (Some(x), Some(y)) => (x, y), _ => { println!("malformed operands"); std::process::exit(2) } };
    let ops = cx["op"].as_str().unwrap_or("");
    let op = match ops {
        "Equal" => BoolSym::Equal,
        "GreaterThan" => BoolSym::GreaterThan,
        "GreaterThanOrEqual" => BoolSym::GreaterThanOrEqual,
        "LessThan" => BoolSym::LessThan,
        "LessThanOrEqual" => BoolSym::LessThanOrEqual,
        _ => { println!("unknown operator"); std::process::exit(2) }
    };
    if matches!(x, Scalar::Bool(_)) || matches!(y, Scalar::Bool(_)) {
        println!("boolean operands reach the table only through casts: not replayable as plain fields");
        std::process::exit(2);
    }
    let e = Expression::BooleanExpression(Box::new(Expression::Field("x".to_owned())), op, Box::new(Expression::Field("y".to_owned())));
    let observed = tau_engine::core::solve(&e, &Doc { x, y });
    let _ = Cow::Borrowed("");
    // the oracle: what the property states for this pair
    let verdict = match (x, y) {
        (Scalar::Float(a), Scalar::Float(b)) => { let want = rel(ops, a, b); if observed != want { Some(format!("IEEE-754 says {}", want)) } else { None } }
        (Scalar::Int(a), Scalar::Int(b)) => { let want = rel(ops, a as i128, b as i128); if observed != want { Some(format!("the integers say {}", want)) } else { None } }
        (Scalar::UInt(a), Scalar::UInt(b)) => { let want = rel(ops, a as i128, b as i128); if observed != want { Some(format!("the integers say {}", want)) } else { None } }
        (Scalar::Int(a), Scalar::UInt(b)) => { if observed && !rel(ops, a as i128, b as i128) { Some("true although the mathematical relation does not hold".to_owned()) } else { None } }
        (Scalar::UInt(a), Scalar::Int(b)) => { if observed && !rel(ops, a as i128, b as i128) { Some("true although the mathematical relation does not hold".to_owned()) } else { None } }
        _ => None,
    };
    match verdict {
        Some(why) => { println!("x = {:?}, y = {:?}: `x {} y` evaluates to {} on the real crate; {}", x, y, ops, observed, why); std::process::exit(1) }
        None => { println!("x = {:?}, y = {:?}: `x {} y` evaluates to {} on the real crate, as stated", x, y, ops, observed); std::process::exit(0) }
    }
}

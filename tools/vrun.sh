#!/bin/bash
# usage: tools/vrun.sh <unit> [extra verus args]   (developer helper)
set -e
cd /verif
U=$1; shift
python3 tools/unit.py $U > build/units/$U.report.json
D=/verif/build/depcrate/target/release/deps
cd build/units
exec verus $U.rs -L dependency=$D --extern regex=$(ls $D/libregex-*.rlib) --extern aho_corasick=$(ls $D/libaho_corasick-*.rlib) --extern serde_yaml=$(ls $D/libserde_yaml-*.rlib) --extern serde=$(ls $D/libserde-*.rlib) "$@"

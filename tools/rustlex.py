"""Minimal Rust lexer utilities: enough to find items and match braces without being
fooled by strings, raw strings, chars, lifetimes and (nested) comments.

mask(src) returns a string of the same length where the *contents* of comments, string
literals and char literals are replaced by spaces (newlines kept).  All structural searches
(brace matching, `fn name` lookup) run on the mask; text is always copied from the original.
"""
import re


def mask(src: str) -> str:
    out = list(src)
    i, n = 0, len(src)

    def blank(a, b):
        for k in range(a, b):
            if out[k] != "\n":
                out[k] = " "

    while i < n:
        c = src[i]
        if c == "/" and i + 1 < n and src[i + 1] == "/":
            j = src.find("\n", i)
            j = n if j < 0 else j
            blank(i, j)
            i = j
        elif c == "/" and i + 1 < n and src[i + 1] == "*":
            depth, j = 1, i + 2
            while j < n and depth:
                if src.startswith("/*", j):
                    depth += 1
                    j += 2
                elif src.startswith("*/", j):
                    depth -= 1
                    j += 2
                else:
                    j += 1
            blank(i, j)
            i = j
        elif c == '"' or (c in "br" and re.match(r'b?r#*"|b"', src[i:i + 8]) and (i == 0 or not (src[i - 1].isalnum() or src[i - 1] == "_"))):
            m = re.match(r'(b?)(r(#*))?"', src[i:])
            if not m:
                i += 1
                continue
            start = i + m.end()
            if m.group(2) is not None:  # raw string
                close = '"' + m.group(3)
                j = src.find(close, start)
                j = n if j < 0 else j
                blank(start, j)
                i = j + len(close)
            else:
                j = start
                while j < n and src[j] != '"':
                    j += 2 if src[j] == "\\" else 1
                blank(start, j)
                i = j + 1
        elif c == "'":
            # char literal or lifetime
            m = re.match(r"'(\\x[0-9a-fA-F]{2}|\\u\{[0-9a-fA-F_]+\}|\\.|[^\\'\n])'", src[i:])
            if m:
                blank(i + 1, i + m.end() - 1)
                i += m.end()
            else:
                i += 1  # lifetime
        else:
            i += 1
    return "".join(out)


def match_brace(msk: str, open_idx: int) -> int:
    """index of the brace matching msk[open_idx] ('{', '(' or '[')."""
    pairs = {"{": "}", "(": ")", "[": "]"}
    o = msk[open_idx]
    c = pairs[o]
    depth = 0
    for k in range(open_idx, len(msk)):
        ch = msk[k]
        if ch == o:
            depth += 1
        elif ch == c:
            depth -= 1
            if depth == 0:
                return k
    raise ValueError("unbalanced brace at %d" % open_idx)


def line_of(src: str, idx: int) -> int:
    return src.count("\n", 0, idx) + 1


def line_start(src: str, idx: int) -> int:
    return src.rfind("\n", 0, idx) + 1


def attrs_start(src: str, msk: str, item_start: int) -> int:
    """Walk upwards from the line of item_start over attribute / doc-comment lines."""
    ls = line_start(src, item_start)
    while ls > 0:
        prev_end = ls - 1
        prev_start = line_start(src, prev_end)
        line = src[prev_start:prev_end].strip()
        if line.startswith("#[") or line.startswith("///") or line.startswith("//!"):
            ls = prev_start
        else:
            break
    return ls


def find_item(src: str, header_re: str, nth: int = 0, within=None):
    """Find an item whose header matches header_re (searched on the mask, anchored at a line
    start modulo indentation).  Returns (start, end) covering attributes through the closing
    brace (or the terminating ';').  `within`=(a,b) restricts the search range."""
    msk = mask(src)
    a, b = within if within else (0, len(src))
    rx = re.compile(r"^[ \t]*" + header_re, re.M)
    hits = [m for m in rx.finditer(msk, a, b)]
    if len(hits) <= nth:
        raise KeyError("item not found: %s (#%d)" % (header_re, nth))
    m = hits[nth]
    # find the first '{' or ';' at paren depth 0 after the header
    k = m.end()
    if msk[k - 1] == "{":
        k -= 1
    depth = 0
    while k < b:
        ch = msk[k]
        if ch in "([":
            depth += 1
        elif ch in ")]":
            depth -= 1
        elif ch == "{" and depth == 0:
            end = match_brace(msk, k) + 1
            return attrs_start(src, msk, m.start()), end
        elif ch == ";" and depth == 0:
            return attrs_start(src, msk, m.start()), k + 1
        k += 1
    raise KeyError("item body not found: %s" % header_re)


def body_open(src: str, start: int, end: int) -> int:
    """index of the '{' opening the body of the item src[start:end]."""
    msk = mask(src)
    depth = 0
    k = start
    # skip attributes
    while k < end:
        ch = msk[k]
        if ch == "#" and msk[k + 1] == "[":
            k = match_brace(msk, k + 1) + 1
            continue
        if ch in "([":
            depth += 1
        elif ch in ")]":
            depth -= 1
        elif ch == "{" and depth == 0:
            return k
        k += 1
    raise KeyError("no body")

"""Unit builder: re-extracts real items from /repo/src on every run, applies the listed
normalisations and holes, inserts the committed ghost layer and writes one single-file Verus
unit.  Nothing here edits /repo.

Template directives (lines of contracts/units/<unit>.rs):
  //%include <path relative to contracts/>
  //%item <src file> <label> <header regex...>        extract one item (nth=K optional prefix)
Ghost file sections (contracts/ghost/<unit>.ghost), all keyed by item label:
  @@ <label> sig                      lines inserted between signature and body '{'
  @@ <label> ret <name>               name the return value:  -> T   =>  -> (name: T)
  @@ <label> loop <k> [iter=<name>]   lines inserted between the k-th loop header and its '{'
                                      (k counts for/while/loop keywords in textual order, from 1;
                                      iter= rewrites `for P in E` to `for P in name: E`)
  @@ <label> before <n> <text>        lines inserted before the n-th line whose stripped text == text
  @@ <label> after <n> <text>         ... after that line
  @@ <label> subst <n> <old> ==> <new>    expression hole (counted, listed in evidence)
  @@ <label> blockhole <n> <anchor text> | <fn name> | <params> | <args> | <ret type>
                                      the brace block opened on the anchor line is moved verbatim
                                      into `#[verifier::external_body] fn name(params) -> ret`
                                      and replaced by the call name(args); following lines (up to
                                      the next @@) are the *assumed* contract of the hole
  @@ <label> blockfn <n> ...          same syntax as blockhole, but the outlined function is VERIFIED: its contract lines are
                                      proved, and ghost sections keyed by the function's name apply to its body
  @@ <label> bodyend <k>              lines inserted at the end of the body of loop k
  loop anchors: <k> may be written [n|<header line text>] (n-th loop with that header; n = * : every such loop),
                                      [n|<header>|in:A>>B] = only loops inside the block opened on the first line A (and, inside
                                      it, on the first line B), ?[..] = optional section; ` as=<name>` after the ] names the loop's
                                      iterator (default it__<ordinal>); in the section body `it__@` stands for that name and `inc__@` for the variable its body increments (`v += 1;`)
  ?subst / ?before / ?after           optional forms: dropped (and listed under dropped_optional_sections) when the anchor is gone;
                                      subst patterns may list alternative spellings `a ||| b` of the same expression
  @@ <label> attr                     lines inserted before the item (e.g. #[verifier::...])
Every inserted line is tagged with a trailing //@ so the erasure check can remove it again.
"""
import os
import re
import sys

sys.path.insert(0, os.path.dirname(__file__))
import rustlex  # noqa: E402

ROOT = os.path.dirname(os.path.dirname(os.path.abspath(__file__)))
REPO = os.environ.get("VERIF_REPO", "/repo")
TAG = " //@"


BLOCKFN_USED = set()


class Undecided(Exception):
    """The unit could not be built (lost anchor, missing item): exit 2, never an alarm."""


# --------------------------------------------------------------------------- normalisations
def n3_ref_patterns(text, counts):
    """N3: `Some(&c) = E {`  ->  `Some(c__r) = E {` + `let c = *c__r;` (Copy payloads only)."""
    out = []
    for line in text.split("\n"):
        m = re.match(r"^(\s*)(while let|if let) Some\(&(\w+)\) = (.*) \{\s*$", line)
        if m:
            ind, kw, v, e = m.groups()
            out.append("%s%s Some(%s__r) = %s {" % (ind, kw, v, e))
            out.append("%s    let %s = *%s__r;" % (ind, v, v))
            counts["N3 ref-pattern desugar"] = counts.get("N3 ref-pattern desugar", 0) + 1
        else:
            out.append(line)
    return "\n".join(out)


def n6_underscore_params(text, counts):
    def repl(m):
        counts["N6 `_` parameter renamed"] = counts.get("N6 `_` parameter renamed", 0) + 1
        return m.group(1) + "_unused" + m.group(2)
    # only in fn headers: `(&self, _: &str)` / `(_: T`
    return re.sub(r"(fn \w+\([^)]*?[(,]\s*)_(\s*:)", repl, text)


def n6_external_derive(text, counts):
    def repl(m):
        counts["N6 derive tagged external_derive"] = counts.get("N6 derive tagged external_derive", 0) + 1
        return m.group(0) + "\n" + m.group(1) + "#[verifier::external_derive]"
    return re.sub(r"^([ \t]*)#\[derive\([^\]]*\)\]", repl, text, flags=re.M)


def drop_doc_comments(text, counts):
    """Doc comments and clippy attributes have no semantics; dropped (counted)."""
    out = []
    for line in text.split("\n"):
        s = line.strip()
        if s.startswith("///") or s.startswith("#[allow(clippy") or s.startswith("#[cfg(not(feature = \"sync\"))]"):
            counts["doc/clippy/cfg(not sync) line dropped"] = counts.get("doc/clippy/cfg(not sync) line dropped", 0) + 1
            continue
        out.append(line)
    return "\n".join(out)


def n8_visibility(text, counts):
    """N8: `pub(crate)` -> `pub` (visibility only; the unit is a single flat crate)."""
    n = text.count("pub(crate) ")
    if n:
        counts["N8 pub(crate) widened to pub"] = counts.get("N8 pub(crate) widened to pub", 0) + n
    return text.replace("pub(crate) ", "pub ")


NORMALISATIONS = [n8_visibility, drop_doc_comments, n3_ref_patterns, n6_underscore_params, n6_external_derive]


def dedent(text):
    lines = text.split("\n")
    ind = min((len(l) - len(l.lstrip()) for l in lines if l.strip()), default=0)
    return "\n".join(l[ind:] if l.strip() else "" for l in lines)


# --------------------------------------------------------------------------- ghost file
class Ghost:
    def __init__(self, path):
        self.sections = {}  # label -> list of (kind, argstring, lines)
        if not os.path.exists(path):
            return
        cur = None
        for raw in open(path).read().split("\n"):
            if raw.startswith("@@ "):
                parts = raw[3:].split(" ", 2)
                label, kind = parts[0], parts[1]
                arg = parts[2] if len(parts) > 2 else ""
                cur = (kind, arg, [])
                self.sections.setdefault(label, []).append(cur)
            elif raw.startswith("##"):
                continue
            elif cur is not None:
                cur[2].append(raw)
        for secs in self.sections.values():
            for s in secs:
                while s[2] and not s[2][-1].strip():
                    s[2].pop()

    def get(self, label):
        return self.sections.get(label, [])


def tag(lines):
    return [(l + TAG) if l.strip() else l for l in lines]


def find_line(lines, text, n, label):
    """index of the n-th (1-based) line whose stripped text equals text, ignoring ghost lines."""
    k = 0
    for i, l in enumerate(lines):
        if l.endswith(TAG):
            continue
        if l.strip() == text:
            k += 1
            if k == n:
                return i
    raise Undecided("lost anchor in %s: line #%d `%s`" % (label, n, text))


def loop_positions(text):
    """[(kw_index, brace_index)] of for/while/loop loops in textual order (mask-based)."""
    msk = rustlex.mask(text)
    res = []
    for m in re.finditer(r"(?<![\w.])(for|while|loop)\b", msk):
        kw = m.group(1)
        # exclude `impl X for Y` / `for<'a>`
        pre = msk[max(0, m.start() - 200):m.start()]
        if kw == "for":
            ls = msk.rfind("\n", 0, m.start()) + 1
            head = msk[ls:m.start()]
            if re.search(r"\bimpl\b", head) or msk[m.end():m.end() + 1] == "<":
                continue
        # find the body '{' at paren depth 0
        depth = 0
        k = m.end()
        brace = None
        while k < len(msk):
            ch = msk[k]
            if ch in "([":
                depth += 1
            elif ch in ")]":
                depth -= 1
            elif ch == "{" and depth == 0:
                # `match x {` inside a while-let scrutinee is not expected here
                brace = k
                break
            elif ch == ";" and depth == 0:
                break
            k += 1
        if brace is not None:
            res.append((m.start(), brace, kw))
    return res


def body_or_semi(text):
    """index of the body '{' of a fn item, or of the terminating ';' of a declaration."""
    msk = rustlex.mask(text)
    depth = 0
    k = 0
    while k < len(msk):
        ch = msk[k]
        if ch == "#" and msk[k + 1:k + 2] == "[":
            k = rustlex.match_brace(msk, k + 1) + 1
            continue
        if ch in "([":
            depth += 1
        elif ch in ")]":
            depth -= 1
        elif ch in "{;" and depth == 0:
            return k
        k += 1
    raise Undecided("no body or ';' found")


def _bump(report, key, n=1):
    report["normalisations"][key] = report["normalisations"].get(key, 0) + n


def apply_ghost(text, label, ghost, report):
    """Phase A rewrites real text (holes and the N4/N5/N7 normalisations, all counted);
    phase B only inserts //@-tagged ghost lines.  Returns (unit text, extra items)."""
    secs = ghost.get(label)
    extra_items = []
    block_fns = []
    # loop ordinals refer to the extracted text: mark every loop keyword before anything moves
    if any(s_[0] in ("desugar", "loop", "body", "bodyend", "afterloop", "beforeloop", "loopattr", "exhausted") for s_ in secs):
        pos0 = loop_positions(text)
        for k in range(len(pos0), 0, -1):
            kw_i = pos0[k - 1][0]
            text = text[:kw_i] + "/*@L%d*/" % k + text[kw_i:]
    # loops may be addressed by header text instead of ordinal:  [n|for row in rows {]  = the n-th loop whose header line
    # has that text; a leading `?` makes the section optional (dropped when the loop is gone, so that removing a loop does
    # not turn every later anchor into a lost one).  `it__@` in the section body stands for the loop's ordinal.
    LOOP_KINDS = ("desugar", "loop", "body", "bodyend", "afterloop", "beforeloop", "loopattr", "exhausted")
    LOOP_NAMES = {}
    if any(s_[0] in LOOP_KINDS and s_[1].lstrip("?").startswith("[") for s_ in secs):
        heads, hpos = {}, {}
        for mm_ in re.finditer(r"/\*@L(\d+)\*/", text):
            le = text.find("\n", mm_.end())
            hdr = text[mm_.end():le if le >= 0 else len(text)].strip()
            heads[int(mm_.group(1))] = hdr
            hpos[int(mm_.group(1))] = mm_.start()

        def ctx_range(chain):
            """[n|header|in:A>B]: the brace block opened on the first line with text A, inside it the one opened on the
            first line with text B, ...; returns the (start, end) offsets in `text`, or None when a step is gone."""
            lo, hi = 0, len(text)
            for step in chain:
                found = None
                pos = lo
                while pos < hi:
                    le_ = text.find("\n", pos)
                    le_ = hi if le_ < 0 or le_ > hi else le_
                    if re.sub(r"/\*@L\d+\*/", "", text[pos:le_]).strip() == step.strip():
                        found = (pos, le_)
                        break
                    pos = le_ + 1
                if found is None:
                    return None
                msk_ = rustlex.mask(text)
                ob_ = msk_.rfind("{", found[0], found[1] + 1)
                if ob_ < 0:
                    return None
                lo, hi = ob_, rustlex.match_brace(msk_, ob_)
            return lo, hi

        def inc_var(k_):
            """`inc__@`: the variable the loop's body increments (first `<ident> += 1;` statement of the body)."""
            i_ = hpos[k_]
            msk_ = rustlex.mask(text)
            ob_ = msk_.find("{", text.find("\n", i_) - 2)
            m_ = re.search(r"\b(\w+) \+= 1;", text[ob_:rustlex.match_brace(msk_, ob_)])
            return m_.group(1) if m_ else None

        resolved = []
        pending = []
        for kind, arg, body in secs:
            a_ = arg.lstrip()
            if kind in LOOP_KINDS and a_.lstrip("?").startswith("["):
                optional = a_.startswith("?")
                a_ = a_.lstrip("?")
                close = a_.index("]")
                mname = re.search(r"\sas=(\w+)", a_[close + 1:])
                if mname:
                    a_ = a_[:close + 1] + a_[close + 1:].replace(mname.group(0), "")
                fields_ = a_[1:close].split("|")
                n_, hdr_ = fields_[0], fields_[1]
                ks = [k for k in sorted(heads) if heads[k] == hdr_.strip()]
                if len(fields_) > 2 and fields_[2].startswith("in:"):
                    rng = ctx_range(fields_[2][3:].split(">>"))
                    ks = [k for k in ks if rng is not None and rng[0] <= hpos[k] < rng[1]]
                if n_.strip() == "*":
                    picked = ks
                else:
                    picked = ks[int(n_) - 1:int(n_)]
                if not picked:
                    if optional:
                        report.setdefault("dropped_optional_sections", []).append("%s %s %s" % (label, kind, arg))
                        continue
                    raise Undecided("lost anchor in %s: loop %s" % (label, a_[:close + 1]))
                for k_ in picked:
                    if mname:
                        LOOP_NAMES[k_] = mname.group(1)
                    lines_ = list(body)
                    if any("inc__@" in l for l in lines_):
                        v_ = inc_var(k_)
                        if v_ is None:
                            raise Undecided("lost anchor in %s: loop %s increments nothing (inc__@)" % (label, a_[:close + 1]))
                        lines_ = [l.replace("inc__@", v_) for l in lines_]
                    pending.append(len(resolved))
                    resolved.append((kind, str(k_) + a_[close + 1:], lines_))
            else:
                resolved.append((kind, arg, body))
        # `it__@` = the iterator of that loop: it__<ordinal>, or the stable name given by `as=<name>` on any section of the loop
        for i_ in pending:
            kind, arg, body = resolved[i_]
            k_ = int(arg.split()[0])
            resolved[i_] = (kind, arg, [l.replace("it__@", LOOP_NAMES.get(k_, "it__%d" % k_)) for l in body])
        secs = resolved
    # ---------------- phase A
    for kind, arg, body in secs:
        optional_ = kind.startswith("?")   # `?subst`, `?before`, `?after`: dropped (and reported) when the anchor is not there
        kind = kind.lstrip("?")
        if kind in ("subst", "norm"):
            n, rest = arg.split(" ", 1)
            old, new = [x.strip() for x in rest.split("==>")]
            # whitespace-flexible literal match (so a pattern may span re-indented lines); `a ||| b`: alternative spellings
            # of the same expression, each of which the hole's assumed contract describes equally (first one present is used)
            hits = []
            for alt_ in old.split("|||"):
                rx = re.compile(r"\s+".join(re.escape(w) for w in alt_.split()))
                hits = list(rx.finditer(text))
                if hits:
                    old = alt_.strip()
                    break
            if optional_ and (not hits or (n != "all" and len(hits) < int(n))):
                report.setdefault("dropped_optional_sections", []).append("%s %s %s" % (label, kind, arg[:80]))
                continue
            if n == "all":
                if not hits:
                    raise Undecided("lost anchor in %s: subst `%s`" % (label, old))
                text = rx.sub(lambda m_: new, text)
                cnt = len(hits)
            else:
                n = int(n)
                if len(hits) < n:
                    raise Undecided("lost anchor in %s: subst #%d `%s`" % (label, n, old))
                m_ = hits[n - 1]
                text = text[:m_.start()] + new + text[m_.end():]
                cnt = 1
            if kind == "norm":
                _bump(report, "N10 " + (" ".join(l.strip() for l in body if l.strip()) or "textual normalisation"), cnt)
            else:
                report["holes"].append({"item": label, "kind": "expression hole", "old": old, "new": new, "count": cnt,
                                        "assumed": [l.strip() for l in body if l.strip()]})
        elif kind in ("blockhole", "blockfn"):
            n, rest = arg.split(" ", 1)
            fields = [x.strip() for x in rest.split("|")]
            anchor, fname, params, args, ret = fields[:5]
            tail = fields[5] if len(fields) > 5 else ""
            lines = text.split("\n")
            i = find_line(lines, anchor, int(n), label)
            off = sum(len(l) + 1 for l in lines[:i])
            msk = rustlex.mask(text)
            ob = msk.rfind("{", off, off + len(lines[i]) + 1)
            if ob < 0:
                raise Undecided("blockhole anchor has no '{' in %s: %s" % (label, anchor))
            cb = rustlex.match_brace(msk, ob)
            block = text[ob:cb + 1]
            after_block = text[cb + 1:]
            nlines = block.count("\n") + 1
            if fname.startswith("return "):
                fname = fname[7:].strip()
                text = text[:ob] + "{ return %s(%s); }" % (fname, args) + text[cb + 1:]
            else:
                text = text[:ob] + "{ %s(%s) }" % (fname, args) + text[cb + 1:]
            contract = "\n".join("    " + l.strip() for l in body if l.strip())
            body_txt = dedent(block)
            if tail:
                # the block falls through to `tail`, the rest of the function after it (checked to be there)
                if canon(tail) not in canon(after_block):
                    raise Undecided("blockhole %s: expected `%s` after the holed block" % (fname, tail))
                body_txt = "{\n" + body_txt + "\n" + tail + "\n}"
            if kind == "blockfn":
                # the block becomes a function of its own that IS verified (its contract is proved, not assumed): splits one
                # huge verification condition in two; ghost sections keyed by the function's name apply to it
                body_txt = re.sub(r"/\*@L\d+\*/", "", body_txt)   # the parent's loop markers: the function numbers its own loops
                fn_txt = "fn %s(%s) -> %s\n%s\n%s\n" % (fname, params, ret, "\n".join(tag(contract.split("\n"))), body_txt)
                fn_txt = apply_ghost(fn_txt, fname, ghost, report)
                BLOCKFN_USED.add(fname)
                block_fns.append("// ---- block function (verified): " + fname + "\n" + fn_txt)
                _bump(report, "S3 brace block outlined verbatim into a verified function of its free variables")
            else:
                extra_items.append("#[verifier::external_body]\nfn %s(%s) -> %s\n%s\n%s\n" % (
                    fname, params, ret, contract, body_txt))
                import hashlib as _hl
                report["holes"].append({"item": label, "kind": "block hole (body kept verbatim, unverified)", "fn": fname,
                                        "anchor": anchor, "lines": nlines, "sha": _hl.sha1(canon(re.sub(r"/\*@L\d+\*/", "", block)).encode()).hexdigest()[:16],
                                        "assumed": [l.strip() for l in body if l.strip()]})
    for kind, arg, body in secs:
        if kind == "closure":
            # @@ f closure <n> <|params|> ==> <|typed params| -> (r: T)>   + ensures lines (ghost)
            n, rest = arg.split(" ", 1)
            old, new = [x.strip() for x in rest.split("==>")]
            idxs = [m.start() for m in re.finditer(re.escape(old), text)]
            if len(idxs) < int(n):
                raise Undecided("lost anchor in %s: closure #%s `%s`" % (label, n, old))
            i = idxs[int(n) - 1]
            msk = rustlex.mask(text)
            j, depth = i + len(old), 0
            while j < len(msk):
                ch = msk[j]
                if ch in "([{":
                    depth += 1
                elif ch in ")]}":
                    if depth == 0:
                        break
                    depth -= 1
                elif ch == "," and depth == 0:
                    break
                j += 1
            cbody = text[i + len(old):j].strip()
            ghost_lines = "\n".join(tag(["    " + l.strip() for l in body if l.strip()]))
            # `|(k, v)| ==> |kv: T| -> (o: T) ;; let (k, v) = kv;`: a pattern parameter is bound by a `let` at the top of the
            # body (the language-defined meaning of a pattern in parameter position; Verus only takes plain variables there)
            prelude_ = ""
            if ";;" in new:
                new, prelude_ = [x.strip() for x in new.split(";;", 1)]
                prelude_ += " "
                _bump(report, "N9b closure pattern parameter bound by a let at the top of the body")
            text = text[:i] + new + "\n" + ghost_lines + "\n{ " + prelude_ + cbody + " }" + text[j:]
            _bump(report, "N9 closure parameters typed and result named")
    for kind, arg, body in secs:
        if kind == "ret":
            name = arg.strip()
            bo = body_or_semi(text)
            head = text[:bo]
            hm = rustlex.mask(head)
            fm = re.search(r"\bfn\s+\w+", hm)
            po = hm.index("(", fm.end()) if fm else -1
            # skip generics: the parameter list is the first '(' after the name at angle depth 0
            if fm:
                k, ang = fm.end(), 0
                while k < len(hm):
                    if hm[k] == "<":
                        ang += 1
                    elif hm[k] == ">" and hm[k - 1] != "-":
                        ang -= 1
                    elif hm[k] == "(" and ang == 0:
                        po = k
                        break
                    k += 1
            pc = rustlex.match_brace(hm, po)
            m = re.match(r"\s*->\s*", hm[pc + 1:])
            if m is None:
                raise Undecided("no return type in %s" % label)
            tstart = pc + 1 + m.end()
            ty = head[tstart:].rstrip()
            wh = ""
            mw = re.search(r"\n\s*where\b", ty)
            if mw:
                wh = ty[mw.start():]
                ty = ty[:mw.start()]
            text = head[:pc + 1] + " -> (%s: %s)%s " % (name, ty.strip(), wh) + text[bo:]
            _bump(report, "N7 return value named")
    # N4 desugaring and N5 iterator naming (loops addressed through their /*@Lk*/ markers)
    def marked_loop(k):
        mk = "/*@L%d*/" % k
        i = text.find(mk)
        if i < 0:
            raise Undecided("lost anchor in %s: loop #%d" % (label, k))
        kw_i = i + len(mk)
        m = re.match(r"(for|while|loop)\b", text[kw_i:])
        msk = rustlex.mask(text)
        depth, j, brace = 0, kw_i + m.end(), None
        while j < len(msk):
            ch = msk[j]
            if ch in "([":
                depth += 1
            elif ch in ")]":
                depth -= 1
            elif ch == "{" and depth == 0:
                brace = j
                break
            j += 1
        return kw_i, brace, m.group(1)

    # N4c: `for (i, x) in v.iter().enumerate() {` over a loop no desugar section names is written as the plain loop over
    # `v.iter()` with an explicit counter (declared before the loop, read and incremented at the top of the body: the meaning
    # of Enumerate); the loop's ghost sections - written for the plain loop - then still apply, and the counter is tied to the
    # ghost position of the iterator by one generated invariant.  So a change that merely starts enumerating a loop is judged.
    ENUM_LOOPS = {}
    desugared_ = {int(a_.split(None, 1)[0]) for k_, a_, b_ in secs if k_ == "desugar"}
    for mm_ in list(re.finditer(r"/\*@L(\d+)\*/", text)):
        k = int(mm_.group(1))
        if k in desugared_:
            continue
        kw_i, brace_i, kw = marked_loop(k)
        if kw != "for" or brace_i is None:
            continue
        hm_ = re.match(r"for \((\w+), ([&\w ]+)\) in (.+?)\.iter\(\)\.enumerate\(\)\s*$", text[kw_i:brace_i].strip(), re.S)
        if not hm_:
            continue
        cnt = "i__e%d" % k
        ls = text.rfind("\n", 0, kw_i) + 1
        ind = re.match(r"[ \t]*", text[ls:]).group(0)
        text = (text[:ls] + ind + "let mut %s: usize = 0;\n" % cnt + text[ls:kw_i]
                + "for %s in %s.iter() " % (hm_.group(2).strip(), hm_.group(3).strip())
                + "{ let %s = %s; %s += 1;" % (hm_.group(1), cnt, cnt) + text[brace_i + 1:])
        ENUM_LOOPS[k] = cnt
        _bump(report, "N4c enumerate() loop written as the plain loop with an explicit counter")
    if ENUM_LOOPS:
        secs2 = []
        for kind, arg, body in secs:
            if kind == "loop" and int(arg.split()[0]) in ENUM_LOOPS:
                k = int(arg.split()[0])
                itn_ = next((p_[5:] for p_ in arg.split()[1:] if p_.startswith("iter=")), None)
                if itn_ and any(l.strip().startswith("invariant") for l in body):
                    body = list(body) + ["        %s == %s.index@," % (ENUM_LOOPS[k], itn_)]
            secs2.append((kind, arg, body))
        secs = secs2
    for kind, arg, body in secs:
        if kind == "desugar":
            ks, rest = arg.split(None, 1)
            k = int(ks)
            kw_i, brace_i, kw = marked_loop(k)
            m = re.match(r"for (.*?) in (.*)$", text[kw_i:brace_i].strip(), re.S)
            if not m or kw != "for":
                raise Undecided("loop #%d in %s is not a for loop" % (k, label))
            newit = None
            for alt in rest.split("||"):   # alternates: the iterator expressions a specified wrapper exists for
                expected, cand = [x.strip() for x in alt.split("==>")]
                if canon(m.group(2)) == canon(expected):
                    newit = cand
            if newit is None:
                raise Undecided("loop #%d in %s iterates `%s`: no specified iterator wrapper for it" % (k, label, m.group(2).strip()))
            cb = rustlex.match_brace(rustlex.mask(text), brace_i)
            itn = LOOP_NAMES.get(k, "it__%d" % k)
            mk = "/*@L%d*/" % k
            if newit.startswith("@"):
                head = "{ %sloop { match %s { None => { break }, Some(%s) => {" % (mk, newit[1:], m.group(1))
            else:
                head = "{ let mut %s = %s; %sloop { match %s.nxt() { None => { break }, Some(%s) => {" % (itn, newit, mk, itn, m.group(1))
            text = text[:kw_i - len(mk)] + head + text[brace_i + 1:cb] + "} } } }" + text[cb + 1:]
            _bump(report, "N4 for-loop desugared to loop/match over a specified iterator")
    for kind, arg, body in secs:
        if kind == "loop":
            parts = arg.split()
            k = int(parts[0])
            it = None
            for p_ in parts[1:]:
                if p_.startswith("iter="):
                    it = p_[5:]
            if it:
                kw_i, brace_i, kw = marked_loop(k)
                m = re.match(r"for (.*?) in ", text[kw_i:brace_i], re.S)
                if not m or kw != "for":
                    raise Undecided("loop #%d in %s is not a for loop" % (k, label))
                text = text[:kw_i + m.end()] + it + ": " + text[kw_i + m.end():]
                _bump(report, "N5 for-loop iterator named")
    base = text
    # ---------------- phase B (insert-only)
    for kind, arg, body in secs:
        if kind == "exhausted":
            # inside the `None => { break }` arm of a desugared loop (the iterator is exhausted here)
            k = int(arg.split()[0])
            kw_i, brace_i, kw = marked_loop(k)
            m = re.match(r"\{ match [^{]*? \{ None => \{", text[brace_i:])
            if not m:
                raise Undecided("loop #%d in %s is not a desugared loop" % (k, label))
            at = brace_i + m.end()
            text = text[:at] + "\n" + "\n".join(tag(["    " + l.strip() for l in body if l.strip()])) + "\n" + text[at:]
            continue
        if kind == "loopattr":
            k = int(arg.split()[0])
            mk = "/*@L%d*/" % k
            i_ = text.find(mk)
            if i_ < 0:
                raise Undecided("lost anchor in %s: loop #%d" % (label, k))
            text = text[:i_] + "\n" + "\n".join(tag([l.strip() for l in body if l.strip()])) + "\n" + text[i_:]
            continue
        if kind == "bodyend":
            # just before the closing brace of the body of a (not desugared) loop
            k = int(arg.split()[0])
            kw_i, brace_i, kw = marked_loop(k)
            at = rustlex.match_brace(rustlex.mask(text), brace_i)
            ls = text.rfind("\n", 0, kw_i) + 1
            ind = re.match(r"[ \t]*", text[ls:]).group(0) + "    "
            text = text[:at].rstrip() + "\n" + "\n".join(tag([ind + l for l in body])) + "\n" + ind[:-4] + text[at:]
            continue
        if kind in ("body", "afterloop", "beforeloop"):
            k = int(arg.split()[0])
            kw_i, brace_i, kw = marked_loop(k)
            if kind == "beforeloop":
                at = text.rfind("\n", 0, kw_i) + 1
                ind = re.match(r"[ \t]*", text[at:]).group(0)
                text = text[:at] + "\n".join(tag([ind + l for l in body])) + "\n" + text[at:]
                continue
            if kind == "body":
                # desugared loops: the real body starts after `Some(PAT) => {`
                m = re.match(r"\{ match [^{]*? \{ None => \{(?:(?!Some\().)*?break \}, Some\(.*?\) => \{", text[brace_i:], re.S)
                at = brace_i + (m.end() if m else 1)
            else:
                at = rustlex.match_brace(rustlex.mask(text), brace_i) + 1
                if re.match(r" \}", text[at:]) and "let mut %s " % LOOP_NAMES.get(k, "it__%d" % k) in text[:kw_i][-200:]:
                    at += 2  # the block that wraps a desugared loop
            ls = text.rfind("\n", 0, kw_i) + 1
            ind = re.match(r"[ \t]*", text[ls:]).group(0) + ("    " if kind == "body" else "")
            text = text[:at] + "\n" + "\n".join(tag([ind + l for l in body])) + "\n" + text[at:]
    for kind, arg, body in secs:
        if kind == "loop":
            k = int(arg.split()[0])
            if not any(l.strip() for l in body):
                continue
            kw_i, brace_i, kw = marked_loop(k)
            text = text[:brace_i].rstrip() + "\n" + "\n".join(tag(body)) + "\n" + text[brace_i:]
    for kind, arg, body in secs:
        if kind == "arm":
            # @@ f arm <path> top|last : structural anchors inside nested match arms
            path, where = arg.split()
            bo_, be_ = arm_by_path(text, path, label)
            if where == "top":
                at = bo_ + 1
            else:
                # before the tail expression of the block: after the last ';' or '}' statement end at depth 0
                msk_ = rustlex.mask(text)
                depth, k, last = 0, bo_ + 1, bo_ + 1
                while k < be_:
                    ch = msk_[k]
                    if ch in "{([":
                        depth += 1
                    elif ch in "})]":
                        depth -= 1
                    elif ch == ";" and depth == 0:
                        last = k + 1
                    k += 1
                at = last
            text = text[:at] + "\n" + "\n".join(tag(["    " + l for l in body])) + "\n" + text[at:]
    for kind, arg, body in reversed(secs):   # reversed: each insertion goes to the front, file order is kept
        if kind == "top":
            # first thing in the function body (structural anchor: survives edits to the first statement)
            bo = body_or_semi(text)
            text = text[:bo + 1] + "\n" + "\n".join(tag(["    " + l for l in body])) + "\n" + text[bo + 1:]
    for kind, arg, body in secs:
        if kind == "sig":
            bo = body_or_semi(text)
            text = text[:bo].rstrip() + "\n" + "\n".join(tag(body)) + "\n" + text[bo:]
    for kind, arg, body in secs:
        optional_ = kind.startswith("?")
        kind = kind.lstrip("?")
        if kind in ("before", "after"):
            n, anchor = arg.split(" ", 1)
            lines = text.split("\n")
            try:
                if n == "all":
                    # every line with that text (at least one): inserted bottom-up so indices stay valid
                    hits = [k for k, l in enumerate(lines) if l.strip() == anchor.strip() and not l.endswith(TAG)]
                    if not hits:
                        raise Undecided("lost anchor in %s: `%s`" % (label, anchor.strip()))
                else:
                    hits = [find_line(lines, anchor.strip(), int(n), label)]
            except Undecided:
                if optional_:
                    report.setdefault("dropped_optional_sections", []).append("%s %s %s" % (label, kind, arg[:80]))
                    continue
                raise
            for i in reversed(hits):
                ind = re.match(r"\s*", lines[i]).group(0)
                new = tag([ind + l for l in body])
                if kind == "before":
                    lines[i:i] = new
                else:
                    lines[i + 1:i + 1] = new
            text = "\n".join(lines)
    for kind, arg, body in secs:
        if kind == "attr":
            text = "\n".join(tag(body)) + "\n" + text
    report["ghost_lines"] += sum(1 for l in text.split("\n") if l.endswith(TAG))
    if canon(erase(text)) != canon(erase(base)):
        report["erasure_ok"] = False
        raise Undecided("erasure check failed for %s" % label)
    if extra_items:
        text = text + "\n\n" + "\n".join(extra_items)
    if block_fns:
        text = text + "\n\n" + "\n".join(block_fns)
    return text


def apply_ghost_outer(text, label, ghost, report):
    """apply_ghost for an item that may already contain ghost lines of its methods."""
    return apply_ghost(text, label, ghost, report)


def top_match_arms(text):
    """Block-bodied arms of the first `match` at depth 1 of a fn body: list of insertion indices
    (just after each arm's opening brace)."""
    msk = rustlex.mask(text)
    bo = body_or_semi(text)
    if msk[bo] != "{":
        return []
    be = rustlex.match_brace(msk, bo)
    depth, k, mpos = 0, bo + 1, None
    while k < be:
        ch = msk[k]
        if ch in "{([":
            depth += 1
        elif ch in "})]":
            depth -= 1
        elif depth == 0 and re.match(r"match\b", msk[k:]) and not (msk[k - 1].isalnum() or msk[k - 1] == "_"):
            mpos = k
            break
        k += 1
    if mpos is None:
        return []
    # the match's own '{'
    depth, k = 0, mpos + 5
    while msk[k] != "{" or depth:
        if msk[k] in "([":
            depth += 1
        elif msk[k] in ")]":
            depth -= 1
        k += 1
    mo, mc = k, rustlex.match_brace(msk, k)
    arms, depth, k = [], 0, mo + 1
    while k < mc:
        ch = msk[k]
        if ch in "{([":
            depth += 1
        elif ch in "})]":
            depth -= 1
        elif depth == 0 and msk.startswith("=>", k):
            j = k + 2
            while msk[j] in " \t\n":
                j += 1
            if msk[j] == "{":
                arms.append(j + 1)
                k = rustlex.match_brace(msk, j) + 1
                continue
        k += 1
    return arms


def block_arms(msk, bo, be):
    """(open, close) of every block-bodied arm of the first `match` found at depth 0 inside the block msk[bo:be]."""
    depth, k, mpos = 0, bo + 1, None
    while k < be:
        ch = msk[k]
        if ch in "{([":
            depth += 1
        elif ch in "})]":
            depth -= 1
        elif depth == 0 and re.match(r"match\b", msk[k:]) and not (msk[k - 1].isalnum() or msk[k - 1] == "_"):
            mpos = k
            break
        k += 1
    if mpos is None:
        return []
    depth, k = 0, mpos + 5
    while msk[k] != "{" or depth:
        if msk[k] in "([":
            depth += 1
        elif msk[k] in ")]":
            depth -= 1
        k += 1
    mo, mc = k, rustlex.match_brace(msk, k)
    arms, depth, k = [], 0, mo + 1
    while k < mc:
        ch = msk[k]
        if ch in "{([":
            depth += 1
        elif ch in "})]":
            depth -= 1
        elif depth == 0 and msk.startswith("=>", k):
            j = k + 2
            while msk[j] in " \t\n":
                j += 1
            if msk[j] == "{":
                c = rustlex.match_brace(msk, j)
                arms.append((j, c))
                k = c + 1
                continue
        k += 1
    return arms


def arm_by_path(text, path, label):
    """block (open, close) addressed by a path like '2/3': block arm 2 of the function's top-level match, then
    block arm 3 of the first match inside it."""
    msk = rustlex.mask(text)
    bo = body_or_semi(text)
    be = rustlex.match_brace(msk, bo)
    for part in path.split("/"):
        arms = block_arms(msk, bo, be)
        n = int(part)
        if n > len(arms):
            raise Undecided("lost anchor in %s: arm path %s (only %d block arms)" % (label, path, len(arms)))
        bo, be = arms[n - 1]
    return bo, be


def apply_armsplit(text, live):
    """insert `assume(false)` at the start of every block arm except arm `live` (1-based; 0 = none live)."""
    arms = top_match_arms(text)
    for n in range(len(arms), 0, -1):
        if n != live:
            at = arms[n - 1]
            text = text[:at] + "\n    assume(false); // arm filter: this arm is verified in its own variant" + TAG + "\n" + text[at:]
    return text, len(arms)


def erase(text):
    return "\n".join(l for l in text.split("\n") if not l.endswith(TAG))


def canon(text):
    """whitespace-insensitive canonical form used by the erasure comparison."""
    return re.sub(r"\s+", "", text)



# --------------------------------------------------------------------------- N12: new helper functions are inlined
_HELPERS = None


def _split_top(msk, src, lo, hi):
    """split src[lo:hi] at commas of bracket depth 0 (judged on the masked text)."""
    parts, depth, st = [], 0, lo
    for k in range(lo, hi):
        ch = msk[k]
        if ch in "([{":
            depth += 1
        elif ch in ")]}":
            depth -= 1
        elif ch == "," and depth == 0:
            parts.append(src[st:k])
            st = k + 1
    if src[st:hi].strip():
        parts.append(src[st:hi])
    return [p_.strip() for p_ in parts]


def new_helpers():
    """free functions of /repo/src that do NOT exist on the pinned tree (contracts/baseline.json: src_fns) and that can be
    inlined by the language definition: no generics, no `self`, no `return` / `?` (the body is one block expression), not
    recursive, plain `name: Type` parameters.  name -> dict(params, ret, body, file, line)"""
    global _HELPERS
    if _HELPERS is not None:
        return _HELPERS
    _HELPERS = {}
    bpath = os.path.join(ROOT, "contracts", "baseline.json")
    try:
        import json as _json
        known = _json.load(open(bpath)).get("src_fns")
    except (OSError, ValueError):
        known = None
    if not known:
        return _HELPERS
    known_names = {n for v in known.values() for n in v}
    srcdir = os.path.join(REPO, "src")
    for fn_ in sorted(os.listdir(srcdir)):
        if not fn_.endswith(".rs"):
            continue
        src = open(os.path.join(srcdir, fn_)).read()
        msk = rustlex.mask(src)
        for m in re.finditer(r"(?m)^(?:pub(?:\([a-z]+\))? )?fn\s+(\w+)\s*\(", msk):
            name = m.group(1)
            if name in known_names:
                continue
            po = m.end() - 1
            pc = rustlex.match_brace(msk, po)
            ob = msk.find("{", pc)
            semi = msk.find(";", pc)
            if ob < 0 or (0 <= semi < ob):
                continue
            cb = rustlex.match_brace(msk, ob)
            head = src[pc + 1:ob].strip()
            ret = None
            if head.startswith("->"):
                ret = head[2:].strip()
            elif head:
                continue   # where clauses etc.
            body, bmsk = src[ob + 1:cb], msk[ob + 1:cb]
            if re.search(r"\breturn\b", bmsk) or "?" in bmsk or re.search(r"\b%s\b" % re.escape(name), bmsk):
                continue
            params, ok = [], True
            for p_ in _split_top(msk, src, po + 1, pc):
                pm = re.match(r"(mut\s+)?(\w+)\s*:\s*(.+)$", p_, re.S)
                if not pm or pm.group(2) == "self" or re.search(r"'\w", pm.group(3)) or "impl " in pm.group(3):
                    ok = False
                    break
                params.append((bool(pm.group(1)), pm.group(2), " ".join(pm.group(3).split())))
            if not ok:
                continue
            _HELPERS[name] = {"params": params, "ret": ret, "body": body.strip("\n"), "file": "src/" + fn_,
                              "line": rustlex.line_of(src, m.start())}
    return _HELPERS


def inline_new_helpers(text, report):
    """every call `h(args)` of such a function is replaced by the block `{ let h__a_i = arg_i; let p_i: T_i = h__a_i; body }`:
    arguments evaluated first and in order, then bound to the parameters, then the body - the meaning of the call."""
    helpers = new_helpers()
    if not helpers:
        return text
    for _round in range(4):
        changed = False
        for name, h in helpers.items():
            while True:
                msk = rustlex.mask(text)
                hit = None
                for m in re.finditer(r"(?<![\w.:])%s\s*\(" % re.escape(name), msk):
                    if re.search(r"\bfn\s+$", msk[:m.start()]):
                        continue
                    hit = m
                    break
                if hit is None:
                    break
                po = hit.end() - 1
                pc = rustlex.match_brace(msk, po)
                args = _split_top(msk, text, po + 1, pc)
                if len(args) != len(h["params"]):
                    raise Undecided("call of new helper `%s` with %d arguments (it takes %d)" % (name, len(args), len(h["params"])))
                ls = text.rfind("\n", 0, hit.start()) + 1
                ind = re.match(r"[ \t]*", text[ls:]).group(0) + "    "
                lines = ["{"]
                lines += ["%slet h__a%d = %s;" % (ind, i_, a_) for i_, a_ in enumerate(args)]
                lines += ["%slet %s%s: %s = h__a%d;" % (ind, "mut " if mut_ else "", pn_, ty_, i_) for i_, (mut_, pn_, ty_) in enumerate(h["params"])]
                body = "\n".join((ind + l) if l.strip() else l for l in dedent(h["body"]).split("\n"))
                if h["ret"]:
                    lines += ["%slet h__r: %s = {" % (ind, h["ret"]), body, ind + "};", ind + "h__r"]
                else:
                    lines += [body]
                lines += [ind[:-4] + "}"]
                text = text[:hit.start()] + "\n".join(lines) + text[pc + 1:]
                changed = True
                _bump(report, "N12 call of a new helper function replaced by its body (arguments bound to the parameters first)")
                ih = report.setdefault("inlined_helpers", [])
                if not any(x_["name"] == name for x_ in ih):
                    ih.append({"name": name, "defined": "%s:%d" % (h["file"], h["line"])})
        if not changed:
            break
    return text

# --------------------------------------------------------------------------- build
def extract_item(srcfile, header_re, nth):
    path = os.path.join(REPO, "src", srcfile)
    if not os.path.exists(path):
        raise Undecided("source file missing: %s" % path)
    src = open(path).read()
    try:
        a, b = rustlex.find_item(src, header_re, nth)
    except (KeyError, ValueError) as e:
        raise Undecided("lost item %s in %s: %s" % (header_re, srcfile, e))
    return src[a:b], rustlex.line_of(src, a), rustlex.line_of(src, b)


def build_unit(unit, outdir, ghost_override=None, variant=None):
    """variant = (label, k): for items carrying an `armsplit` ghost section, keep only arm k of
    `label` live (all arms of every other split item are filtered).  variant=None: no filtering."""
    tmpl = os.path.join(ROOT, "contracts", "units", unit + ".rs")
    ghost = Ghost(ghost_override or os.path.join(ROOT, "contracts", "ghost", unit + ".ghost"))
    report = {"unit": unit, "items": [], "normalisations": {}, "holes": [], "ghost_lines": 0, "erasure_ok": True}
    out = []
    used = set()
    for line in open(tmpl).read().split("\n"):
        if line.startswith("//%include "):
            out.append(open(os.path.join(ROOT, "contracts", line.split(None, 1)[1].strip())).read())
        elif line.startswith("//%item ") or line.startswith("//%slice "):
            if line.startswith("//%slice "):
                # //%slice <src file> <label> <fn header regex> ;; <first line> ;; <last line> ;; <signature> ;; <tail expr>
                # the statements from <first line> to <last line> (stripped text, first occurrence each, inside the
                # named function) are taken verbatim as the body of a function of their free variables
                _, srcfile, label, rest_ = line.split(None, 3)
                fields__ = [x.strip() for x in rest_.split(";;")]
                hdr, first, last, sig, tail = fields__[:5]
                # optional 6th field `cont:<expr>`: the sliced lines sit in a loop body and leave it with `continue;` when an
                # element is done - in the function they become `return <expr>;` (counted: S2)
                cont_expr = fields__[5][5:].strip() if len(fields__) > 5 and fields__[5].startswith("cont:") else None
                if tail == "-":
                    tail = ""   # the block is a statement list; the function returns ()
                whole, f0, _f1 = extract_item(srcfile, hdr, 0)
                whole = inline_new_helpers(whole, report)
                wl = whole.split("\n")
                # `<last line> +N`: N more lines after the anchor line (closing braces of a tail expression)
                more = 0
                mm = re.match(r"(.*\S)\s+\+(\d+)$", last)
                if mm:
                    last, more = mm.group(1), int(mm.group(2))
                try:
                    inner_end = None
                    if first.startswith("inside:"):
                        # structural: every line strictly inside the brace block opened on the line with that text
                        # (inside:nth=K:<line> = the K-th such line); the end field is then `-`
                        ftxt_ = first[7:].strip()
                        mnth_ = re.match(r"nth=(\d+):(.*)$", ftxt_)
                        hits_ = [k for k, l in enumerate(wl) if l.strip() == (mnth_.group(2).strip() if mnth_ else ftxt_)]
                        bl0 = hits_[int(mnth_.group(1)) - 1 if mnth_ else 0]
                        off0 = sum(len(l) + 1 for l in wl[:bl0])
                        msk0 = rustlex.mask(whole)
                        ob0 = msk0.rfind("{", off0, off0 + len(wl[bl0]) + 1)
                        if ob0 < 0:
                            raise StopIteration
                        i0 = bl0 + 1
                        inner_end = whole.count("\n", 0, rustlex.match_brace(msk0, ob0)) - 1
                    elif first.startswith("after:"):
                        # structural start: the line following the one with that text (e.g. a loop header)
                        ftxt_ = first[6:].strip()
                        mnth_ = re.match(r"nth=(\d+):(.*)$", ftxt_)   # after:nth=2:<line> = after the 2nd line with that text
                        if mnth_:
                            i0 = [k for k, l in enumerate(wl) if l.strip() == mnth_.group(2).strip()][int(mnth_.group(1)) - 1] + 1
                        else:
                            i0 = next(k for k, l in enumerate(wl) if l.strip() == ftxt_) + 1
                    elif first.startswith("afterblock:"):
                        # structural start: the line following the end of the brace block opened on the line with that text
                        bl0 = next(k for k, l in enumerate(wl) if l.strip() == first[11:].strip())
                        off0 = sum(len(l) + 1 for l in wl[:bl0])
                        msk0 = rustlex.mask(whole)
                        ob0 = msk0.rfind("{", off0, off0 + len(wl[bl0]) + 1)
                        if ob0 < 0:
                            raise StopIteration
                        i0 = whole.count("\n", 0, rustlex.match_brace(msk0, ob0)) + 1
                    elif re.match(r"nth=(\d+):", first):
                        nn = int(re.match(r"nth=(\d+):", first).group(1))
                        ftxt = first.split(":", 1)[1].strip()
                        i0 = [k for k, l in enumerate(wl) if l.strip() == ftxt][nn - 1]
                    else:
                        i0 = next(k for k, l in enumerate(wl) if l.strip() == first)
                    if inner_end is not None:
                        i1 = inner_end
                    elif last.startswith("block:"):
                        # structural end: the line that closes the brace block opened on the (first) line with that text at or after the start
                        bl = next(k for k, l in enumerate(wl) if k >= i0 and l.strip() == last[6:].strip())
                        off = sum(len(l) + 1 for l in wl[:bl])
                        mskw = rustlex.mask(whole)
                        ob = mskw.rfind("{", off, off + len(wl[bl]) + 1)
                        if ob < 0:
                            raise StopIteration
                        i1 = whole.count("\n", 0, rustlex.match_brace(mskw, ob)) + more
                    elif last == "block":
                        # structural end: the line that closes the brace block opened on the first line
                        off = sum(len(l) + 1 for l in wl[:i0])
                        mskw = rustlex.mask(whole)
                        ob = mskw.rfind("{", off, off + len(wl[i0]) + 1)
                        if ob < 0:
                            raise StopIteration
                        i1 = whole.count("\n", 0, rustlex.match_brace(mskw, ob)) + more
                    else:
                        i1 = next(k for k, l in enumerate(wl) if k >= i0 and l.strip() == last) + more
                except (StopIteration, IndexError):
                    raise Undecided("lost slice anchor in %s (%s): `%s` .. `%s`" % (srcfile, label, first, last))
                body = dedent("\n".join(wl[i0:i1 + 1]))
                if cont_expr is not None:
                    ncont = len(re.findall(r"(?m)^(\s*)continue;\s*$", body))
                    body = re.sub(r"(?m)^(\s*)continue;\s*$", lambda m_: m_.group(1) + "return " + cont_expr + ";", body)
                    _bump(report, "S2 `continue;` of the enclosing loop rewritten to `return <slice result>;`", ncont)
                ind_body = "\n".join("    " + l if l.strip() else l for l in body.split("\n"))
                if "@" in tail:
                    # the sliced lines are an expression: `Ok(@)` wraps them as a block expression
                    pre, post = tail.split("@", 1)
                    if post.strip().startswith(";"):
                        post = ";\n    " + post.strip()[1:].strip()   # `let r0 = @; r0`: the tail on its own line (anchorable)
                    raw = sig + " {\n    " + pre + "{\n" + ind_body + "\n    }" + post + "\n}"
                else:
                    raw = sig + " {\n" + ind_body + "\n    " + tail + "\n}"
                l0, l1 = f0 + i0, f0 + i1
                report.setdefault("slices", []).append({"label": label, "file": "src/" + srcfile, "lines": [l0, l1],
                    "of_function": hdr, "signature": sig, "tail": tail,
                    "dropped": "everything of the enclosing function outside these lines; the free variables of the block become parameters"})
                _bump(report, "S1 block slice wrapped as a function of its free variables")
            else:
                _, srcfile, label, hdr = line.split(None, 3)
                nth = 0
                m = re.match(r"nth=(\d+)\s+(.*)", hdr)
                if m:
                    nth, hdr = int(m.group(1)), m.group(2)
                raw, l0, l1 = extract_item(srcfile, hdr.strip(), nth)
            text = inline_new_helpers(dedent(raw), report)
            for nfn in NORMALISATIONS:
                text = nfn(text, report["normalisations"])
            # method-scoped ghost sections: label::method
            extra_tail = ""
            for sub in [l for l in ghost.sections if l.startswith(label + "::")]:
                meth = sub.split("::", 1)[1]
                try:
                    a, b = rustlex.find_item(text, r"(pub(\([a-z]+\))? )?fn " + re.escape(meth) + r"\b")
                except (KeyError, ValueError) as e:
                    raise Undecided("lost method %s: %s" % (sub, e))
                a = a + (len(text[a:]) - len(text[a:].lstrip("\n")))
                ind = re.match(r"[ \t]*", text[a:]).group(0)
                piece = apply_ghost(dedent(text[a:b]), sub, ghost, report)
                if "\n\n#[verifier::external_body]\nfn " in piece:
                    piece, tail = piece.split("\n\n#[verifier::external_body]\nfn ", 1)
                    extra_tail += "\n#[verifier::external_body]\nfn " + tail
                piece = "\n".join((ind + l) if l.strip() else l for l in piece.split("\n"))
                text = text[:a] + piece + text[b:]
                used.add(sub)
            with_ghost = apply_ghost_outer(text, label, ghost, report) + extra_tail
            if any(sec[0] == "armsplit" for sec in ghost.get(label)):
                if variant is not None:
                    live = variant[1] if variant[0] == label else 0
                    # only the item text itself (hole fns appended after it are untouched)
                    cuts = [c_ for c_ in (with_ghost.find("\n\n#[verifier::external_body]\nfn hole_"), with_ghost.find("\n\n// ---- block function (verified): ")) if c_ >= 0]
                    cut = min(cuts) if cuts else -1
                    head, tail = (with_ghost, "") if cut < 0 else (with_ghost[:cut], with_ghost[cut:])
                    head, narms = apply_armsplit(head, live)
                    with_ghost = head + tail
                else:
                    narms = len(top_match_arms(with_ghost))
                report.setdefault("armsplit", {})[label] = narms
            used.add(label)
            report["items"].append({"label": label, "file": "src/" + srcfile, "lines": [l0, l1]})
            out.append("// ---- extracted: src/%s:%d-%d (%s)" % (srcfile, l0, l1, label))
            out.append(with_ghost)
        else:
            out.append(line)
    for label in ghost.sections:
        if label not in used and label not in BLOCKFN_USED and not label.startswith("_"):
            raise Undecided("ghost section for unknown item `%s`" % label)
    text = "\n".join(out)
    os.makedirs(outdir, exist_ok=True)
    path = os.path.join(outdir, unit + ".rs")
    open(path, "w").write(text)
    report["path"] = path
    return report


def src_line_map(path):
    """unit line -> 'src/file.rs:line' using the `// ---- extracted:` markers (ghost lines skipped)."""
    m = {}
    cur = None
    for i, l in enumerate(open(path).read().split("\n"), 1):
        mm = re.match(r"// ---- extracted: (src/\S+):(\d+)-(\d+) \((\S+)\)", l)
        if mm:
            cur = [mm.group(1), int(mm.group(2)) - 1, mm.group(4)]
            continue
        if cur:
            if not l.endswith(TAG):
                cur[1] += 1
            m[i] = (cur[0], cur[1], cur[2])
    return m


if __name__ == "__main__":
    import json
    r = build_unit(sys.argv[1], sys.argv[2] if len(sys.argv) > 2 else os.path.join(ROOT, "build", "units"))
    print(json.dumps(r, indent=1))

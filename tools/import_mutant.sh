#!/bin/bash
# usage: import_mutant.sh <dir with patch.diff demo.rs notes.md> <id e.g. C02-h> <property> "<what>"
# confirms the change in a fresh worktree of /repo HEAD (demo passes unchanged, fails changed, suite passes changed) and files it under seeded/
set -u
SRC=$1; ID=$2; PROP=$3; WHAT=$4
R=$(/verif/tools/confirm_mutant.sh $ID $SRC 2>&1 | tail -1)
echo "$R"
case "$R" in
  *"baseline-demo[test result: ok"*"mutant-demo[test result: FAILED"*"failed=0"*) ;;
  *) echo "NOT CONFIRMED"; exit 1;;
esac
D=/verif/seeded/$ID; mkdir -p $D
cp $SRC/patch.diff $SRC/demo.rs $SRC/notes.md $D/
python3 - "$ID" "$PROP" "$WHAT" "$(git -C /repo rev-parse --short HEAD)" > $D/meta.json <<'PY'
import json,sys
print(json.dumps({"id":sys.argv[1],"breaks_property":sys.argv[2],
 "source":"independent sub-agent given only the property text and a scratch worktree",
 "what":sys.argv[3],
 "confirmed_by":"tools/confirm_mutant.sh in a fresh worktree of /repo HEAD (%s): demo passes on the unchanged tree, fails with patch.diff applied, whole suite passes with the patch"%sys.argv[4],
 "files":["patch.diff","demo.rs","notes.md"]},indent=1))
PY
echo "filed $D"

#!/bin/bash
# every seeded change against the check of the property it was seeded for; prints "<id>: exit=<rc>" (1 = reported, 2 = undecided, 0 = missed)
cd /verif
git -C /repo status --short | grep -q . && { echo "repo not clean"; exit 9; }
rm -rf /tmp/ev.bak.$$; cp -r evidence /tmp/ev.bak.$$   # checks on a changed tree must not leave their evidence behind
for d in seeded/*/; do n=$(basename $d); p=${n%%-*};
  git -C /repo apply /verif/$d/patch.diff 2>/dev/null || { echo "$n: patch does not apply"; continue; }
  out=$(./check $p 2>&1); rc=$?
  git -C /repo checkout -- .
  echo "$n: exit=$rc $(echo "$out" | grep -E '^(FAILED-OBLIGATION|UNDECIDED)' | head -1 | cut -c1-160)"
done
rm -rf /verif/evidence; mv /tmp/ev.bak.$$ /verif/evidence

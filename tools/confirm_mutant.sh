#!/bin/bash
# usage: confirm_mutant.sh <name> <dir with patch.diff demo.rs>   -> prints a summary; leaves nothing behind
set -u
N=$1; SRC=$2
W=/tmp/cm/$N
rm -rf $W; mkdir -p /tmp/cm
git -C /repo worktree add -q --detach $W HEAD || exit 3
cd $W
cp $SRC/demo.rs tests/zz_demo_$N.rs
base=$(cargo test --offline --test zz_demo_$N 2>&1 | grep -a -E "^test result" | head -1)
git apply $SRC/patch.diff || { echo "$N: PATCH DOES NOT APPLY"; cd /; git -C /repo worktree remove --force $W; exit 4; }
mut=$(cargo test --offline --test zz_demo_$N 2>&1 | grep -a -E "^test result" | head -1)
rm tests/zz_demo_$N.rs
suite=$(cargo test --offline 2>&1 | grep -a -E "^test result" | awk '{p+=$4; f+=$6} END {print "passed=" p " failed=" f}')
echo "$N: baseline-demo[$base] mutant-demo[$mut] suite-with-mutant[$suite]"
cd /; git -C /repo worktree remove --force $W

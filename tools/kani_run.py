"""Kani runner: builds a scratch copy of /repo under build/kani/<name>, applies N1 (tracing::debug -> no-op),
appends a harness module (with blocks sliced from the real source) and runs the named harnesses."""
import os
import re
import shutil
import subprocess
import sys
import time

sys.path.insert(0, os.path.dirname(__file__))
import rustlex  # noqa: E402
import unit as unitmod  # noqa: E402

ROOT = unitmod.ROOT
REPO = unitmod.REPO


def slice_block(src, anchor, nth=1):
    """text of the brace block that opens on the nth line whose stripped text == anchor (from the block's
    first token after `= ` if the anchor is a let, i.e. returns `match (...) { ... }`)."""
    lines = src.split("\n")
    k = 0
    for i, l in enumerate(lines):
        if l.strip() == anchor:
            k += 1
            if k == nth:
                off = sum(len(x) + 1 for x in lines[:i])
                msk = rustlex.mask(src)
                ob = msk.index("{", off)
                cb = rustlex.match_brace(msk, ob)
                start = off + l.index(anchor)
                m = re.match(r"let \w+ = ", anchor)
                if m:
                    start += m.end()
                return src[start:cb + 1], i + 1, src.count("\n", 0, cb) + 1
    raise unitmod.Undecided("lost slice anchor `%s`" % anchor)


def prepare(name, appends):
    """appends: {relative src file: text to append}"""
    d = os.path.join(ROOT, "build", "kani", name)
    if os.path.exists(d):
        shutil.rmtree(os.path.join(d, "src"), ignore_errors=True)
    os.makedirs(d, exist_ok=True)
    shutil.copytree(os.path.join(REPO, "src"), os.path.join(d, "src"))
    shutil.copy(os.path.join(REPO, "Cargo.toml"), os.path.join(d, "Cargo.toml"))
    # Cargo.lock is not tracked by the repository: a fresh worktree has none; the one setup.sh copied for the dependency
    # build (same versions) stands in
    for lock in (os.path.join(REPO, "Cargo.lock"), os.path.join(ROOT, "build", "depcrate", "Cargo.lock.repo")):
        if os.path.exists(lock):
            shutil.copy(lock, os.path.join(d, "Cargo.lock"))
            break
    os.makedirs(os.path.join(d, ".cargo"), exist_ok=True)
    open(os.path.join(d, ".cargo", "config.toml"), "w").write("[net]\noffline = true\n")
    n1 = 0
    for fn in os.listdir(os.path.join(d, "src")):
        p = os.path.join(d, "src", fn)
        s = open(p).read()
        if "use tracing::debug;" in s:
            s = s.replace("use tracing::debug;", "macro_rules! debug { ($($t:tt)*) => {} }")
            n1 += 1
        if fn in appends:
            s += "\n" + appends[fn]
        open(p, "w").write(s)
    return d, n1


def run(d, harnesses, extra=(), timeout=1200):
    out = {}
    for h in harnesses:
        t0 = time.time()
        cmd = ["cargo", "kani", "--harness", h] + list(extra)
        try:
            p = subprocess.run(cmd, cwd=d, capture_output=True, text=True, timeout=timeout,
                               env=dict(os.environ, CARGO_NET_OFFLINE="true"))
            txt = p.stdout + p.stderr
            ok = "VERIFICATION:- SUCCESSFUL" in txt
            failed = "VERIFICATION:- FAILED" in txt
            status = "success" if ok else ("failed" if failed else "error")
        except subprocess.TimeoutExpired as e:
            txt = (e.stdout or b"").decode(errors="replace") if isinstance(e.stdout, bytes) else (e.stdout or "")
            status = "timeout"
        fails = re.findall(r"Failed Checks: (.*)", txt)
        m = re.search(r"SUMMARY:\s*\n\s*\*\* (\d+) of (\d+) failed", txt)
        checks = re.search(r"\*\* \d+ of (\d+) failed|SUMMARY:[\s\S]*?(\d+) of (\d+)", txt)
        total = None
        mm = re.search(r"\*\* (\d+) of (\d+) failed", txt)
        if mm:
            total = int(mm.group(2))
        out[h] = {"status": status, "failed_checks": fails[:10], "checks": total, "wall_s": round(time.time() - t0, 1),
                  "cmd": " ".join(cmd), "tail": txt[-2500:]}
    return out


if __name__ == "__main__":
    pass

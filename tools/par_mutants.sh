#!/bin/bash
# usage: par_mutants.sh <jobs> <id:prop[,prop..]> ...   runs ./check <prop> for each seeded change in parallel, each on its own
# scratch worktree of /repo (with the patch applied) and its own scratch copy of /verif (VERIF_REPO points the extractor at the
# worktree); prints one line per (change, property): exit code and the last line of the check.  Leaves nothing behind.
J=$1; shift
run_one() {
  spec=$1; id=${spec%%:*}; props=${spec#*:}
  W=/tmp/mw/$id; V=/tmp/mv/$id
  rm -rf $W $V; mkdir -p /tmp/mw /tmp/mv
  git -C /repo worktree add -q --detach $W HEAD 2>/dev/null || { echo "$id worktree failed"; return; }
  cp /repo/Cargo.lock $W/ 2>/dev/null; git -C $W apply /verif/seeded/$id/patch.diff || { echo "$id: PATCH DOES NOT APPLY"; git -C /repo worktree remove --force $W; return; }
  mkdir -p $V; rsync -a --exclude build --exclude .git --exclude seeded /verif/ $V/
  mkdir -p $V/build; ln -s /verif/build/depcrate $V/build/depcrate; cp -r /verif/build/cache $V/build/cache 2>/dev/null
  for p in ${props//,/ }; do
    (cd $V && VERIF_REPO=$W timeout 1500 ./check $p > $V/log_$p.txt 2>&1; echo "$id $p exit=$? :: $(grep -a -E '^(VIOLATION|UNDECIDED|OK)' $V/log_$p.txt | head -2 | cut -c1-260 | tr '\n' ' ')")
  done
  git -C /repo worktree remove --force $W; rm -rf $V
}
export -f run_one
printf '%s\n' "$@" | xargs -P $J -I{} bash -c 'run_one {}'
git -C /repo worktree prune

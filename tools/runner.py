"""Runs Verus on generated units (in parallel, with a content-addressed cache) and turns its
JSON output into per-function results and per-obligation records."""
import concurrent.futures
import glob
import hashlib
import json
import os
import re
import subprocess
import sys
import time

sys.path.insert(0, os.path.dirname(__file__))
import unit as unitmod  # noqa: E402
import rustlex  # noqa: E402

ROOT = unitmod.ROOT
DEPS = os.path.join(ROOT, "build", "depcrate", "target", "release", "deps")
CACHE = os.path.join(ROOT, "build", "cache")
VERUS_VERSION = None

FAIL_KINDS = [
    ("postcondition not satisfied", "postcondition"),
    ("precondition not satisfied", "precondition"),
    ("assertion failed", "assertion"),
    ("invariant not satisfied", "invariant"),
    ("could not prove termination", "termination"),
    ("decreases not satisfied", "termination"),
    ("possible arithmetic underflow/overflow", "overflow"),
    ("possible division by zero", "overflow"),
    ("possible bit shift underflow/overflow", "overflow"),
    ("recommendation not met", "recommends"),
    ("unreachable", "panic"),
]


def lib(name):
    hits = glob.glob(os.path.join(DEPS, "lib%s-*.rlib" % name))
    if not hits:
        raise unitmod.Undecided("dependency rlib for %s missing: run setup (./setup.sh)" % name)
    return hits[0]


def verus_version():
    global VERUS_VERSION
    if VERUS_VERSION is None:
        VERUS_VERSION = subprocess.run(["verus", "--version"], capture_output=True, text=True).stdout.strip().replace("\n", " ")
    return VERUS_VERSION


def verus_cmd(path, extra):
    cmd = ["verus", os.path.basename(path), "-L", "dependency=" + DEPS]
    for n in ("regex", "aho_corasick", "serde_yaml", "serde"):
        cmd += ["--extern", "%s=%s" % (n, lib(n))]
    cmd += ["--output-json", "--time", "--error-format=json", "--multiple-errors", "4"] + list(extra)
    return cmd


def run_verus(path, extra=(), timeout=600, use_cache=True):
    """returns dict(ok, functions{name:{success,time_ms,rlimit}}, errors[...], compile_error, wall_s, cmd, cache_hit)"""
    text = open(path).read()
    key = hashlib.sha256((text + "\0" + " ".join(extra) + "\0" + verus_version()).encode()).hexdigest()
    cpath = os.path.join(CACHE, key + ".json")
    if use_cache and os.environ.get("VERIF_NO_CACHE") != "1" and os.path.exists(cpath):
        r = json.load(open(cpath))
        r["cache_hit"] = True
        return r
    cmd = verus_cmd(path, extra)
    t0 = time.time()
    try:
        p = subprocess.run(cmd, cwd=os.path.dirname(path), capture_output=True, text=True, timeout=timeout)
        out, err, rc, timed_out = p.stdout, p.stderr, p.returncode, False
    except subprocess.TimeoutExpired as e:
        out = e.stdout.decode() if isinstance(e.stdout, bytes) else (e.stdout or "")
        err = e.stderr.decode() if isinstance(e.stderr, bytes) else (e.stderr or "")
        rc, timed_out = -1, True
    wall = time.time() - t0
    res = {"functions": {}, "errors": [], "compile_error": None, "wall_s": round(wall, 2), "cmd": " ".join(cmd),
           "timed_out": timed_out, "cache_hit": False, "smt_ms": 0, "rlimit": 0}
    try:
        j = json.loads(out[out.index("{"):]) if "{" in out else {}
    except ValueError:
        j = {}
    smt = j.get("times-ms", {}).get("smt", {})
    res["smt_ms"] = smt.get("smt-run", 0)
    res["rlimit"] = smt.get("rlimit-run", 0)
    for mod in smt.get("smt-run-module-times", []):
        for f in mod.get("function-breakdown", []):
            res["functions"][f["function"].split("::", 1)[-1]] = {
                "success": f["success"], "time_ms": f["time"], "rlimit": f["rlimit"], "mode": f.get("mode:", "")}
    src_lines = text.split("\n")
    for line in err.split("\n"):
        if not line.startswith("{"):
            continue
        try:
            d = json.loads(line)
        except ValueError:
            continue
        if d.get("level") != "error":
            continue
        msg = d["message"]
        if msg.startswith("aborting due to"):
            continue
        spans = [{"line": s["line_start"], "label": s.get("label"), "primary": s.get("is_primary", False),
                  "text": src_lines[s["line_start"] - 1].strip() if 0 < s["line_start"] <= len(src_lines) else ""}
                 for s in d.get("spans", []) if s.get("file_name", "").endswith(os.path.basename(path))]
        kind = None
        for pat, k in FAIL_KINDS:
            if pat in msg:
                kind = k
                break
        if "Resource limit (rlimit) exceeded" in msg:
            kind = "rlimit"
        res["errors"].append({"message": msg, "kind": kind, "spans": spans, "rendered": (d.get("rendered") or "")[:3000]})
    vr = j.get("verification-results", {})
    hard = [e for e in res["errors"] if e["kind"] is None]
    if timed_out:
        res["compile_error"] = "verus timed out after %ds" % timeout
    elif not vr or vr.get("encountered-vir-error") or (hard and not res["functions"]):
        res["compile_error"] = (hard[0]["message"] if hard else (err[-1500:] or "verus produced no result"))
    res["ok"] = (rc == 0 and not res["errors"] and res["compile_error"] is None)
    if not timed_out:
        os.makedirs(CACHE, exist_ok=True)
        json.dump(res, open(cpath, "w"))
    return res


def fn_of_line(unit_text):
    """map unit line number -> name of the enclosing top-level-or-impl fn (best effort, mask based)."""
    msk = rustlex.mask(unit_text)
    spans = []
    for m in re.finditer(r"\bfn\s+(\w+)", msk):
        # find body
        k, depth = m.end(), 0
        while k < len(msk):
            ch = msk[k]
            if ch in "([":
                depth += 1
            elif ch in ")]":
                depth -= 1
            elif ch == "{" and depth == 0:
                try:
                    e = rustlex.match_brace(msk, k)
                except ValueError:
                    e = k
                spans.append((unit_text.count("\n", 0, m.start()) + 1, unit_text.count("\n", 0, e) + 1, m.group(1)))
                break
            elif ch == ";" and depth == 0:
                break
            k += 1
    def look(line):
        best = None
        for a, b, n in spans:
            if a <= line <= b and (best is None or a >= best[0]):
                best = (a, b, n)
        return best[2] if best else None
    return look


def count_obligations(fn_text):
    """Static count of the proof obligations Verus generates for one function, by kind."""
    msk = rustlex.mask(fn_text)
    lines = fn_text.split("\n")
    mlines = msk.split("\n")
    c = {"ensures": 0, "requires_at_calls": 0, "invariant": 0, "decreases": 0, "assert": 0, "panic_site": 0,
         "index": 0, "arith": 0}
    mode = None
    for raw, ml in zip(lines, mlines):
        s = ml.strip()
        ghost = raw.rstrip().endswith(unitmod.TAG)
        code = s[:-3].strip() if ghost and s.endswith("//@") else s
        if ghost:
            head = code.split(" ")[0] if code else ""
            if head in ("requires", "ensures", "invariant", "decreases", "invariant_except_break"):
                mode = head
                code = code[len(head):].strip()
            if mode in ("ensures", "invariant", "invariant_except_break") and code and not code.startswith(("proof", "let", "assert", "broadcast", "reveal", "}", "{", "#[", "lemma", "if ")):
                c["ensures" if mode == "ensures" else "invariant"] += 1
            if mode == "decreases" and code:
                c["decreases"] += 1
                mode = None
            c["assert"] += len(re.findall(r"\bassert\s*(\(|forall)", code))
        else:
            mode = None
            c["panic_site"] += len(re.findall(r"unreachable!|\.expect\(|\.unwrap\(\)|panic!", s))
            c["index"] += len(re.findall(r"[\w\)\]]\[[^\]\n]+\]", s))
            c["arith"] += len(re.findall(r"\+=|-=| \+ | - | \* |<<|>>", s))
    return c


def parallel(jobs, workers=None):
    """jobs: list of (key, callable) -> dict key->result"""
    workers = workers or min(16, max(1, len(jobs)))
    out = {}
    with concurrent.futures.ThreadPoolExecutor(workers) as ex:
        futs = {ex.submit(fn): key for key, fn in jobs}
        for f in concurrent.futures.as_completed(futs):
            out[futs[f]] = f.result()
    return out

#!/bin/bash
# usage: try_mutant.sh <seeded dir name> <prop> [<prop> ...]  : apply, run checks, always revert
D=/verif/seeded/$1; shift
cd /repo && git status --short | grep -q . && { echo "repo not clean"; exit 9; }
git -C /repo apply $D/patch.diff || { echo "patch does not apply"; exit 8; }
cd /verif
rm -rf /tmp/ev.bak.$$; cp -r evidence /tmp/ev.bak.$$   # checks on a changed tree must not leave their evidence behind
for p in "$@"; do ./check $p | tail -4; echo "  -> exit ${PIPESTATUS[0]}"; done
git -C /repo checkout -- .
rm -rf /verif/evidence; mv /tmp/ev.bak.$$ /verif/evidence

#!/usr/bin/env python3
"""developer helper: per-function SMT time / rlimit of a unit (sorted)."""
import sys, os
sys.path.insert(0, os.path.dirname(__file__))
import unit as unitmod, runner
u = sys.argv[1]
rep = unitmod.build_unit(u, os.path.join(unitmod.ROOT, "build", "units"))
res = runner.run_verus(rep["path"], ["--verify-root"] + sys.argv[2:], use_cache=False)
for f, st in sorted(res["functions"].items(), key=lambda kv: -kv[1]["rlimit"])[:25]:
    print("%-40s ok=%s ms=%6d rlimit=%d" % (f, st["success"], st["time_ms"], st["rlimit"]))
print("errors:", [(e["kind"], e["message"][:80]) for e in res["errors"]], res["compile_error"])

#!/usr/bin/env python3
"""developer helper: run verus on a unit with JSON diagnostics and print condensed errors."""
import json, subprocess, sys, os, glob
unit = sys.argv[1]
extra = sys.argv[2:]
subprocess.check_call([sys.executable, "/verif/tools/unit.py", unit], stdout=open("/verif/build/units/%s.report.json" % unit, "w"))
D = "/verif/build/depcrate/target/release/deps"
def lib(n): return glob.glob("%s/lib%s-*.rlib" % (D, n))[0]
cmd = ["verus", unit + ".rs", "-L", "dependency=" + D, "--extern", "regex=" + lib("regex"), "--extern", "aho_corasick=" + lib("aho_corasick"),
       "--extern", "serde_yaml=" + lib("serde_yaml"), "--extern", "serde=" + lib("serde"), "--error-format=json", "--multiple-errors", "30"] + extra
p = subprocess.run(cmd, cwd="/verif/build/units", capture_output=True, text=True)
src = open("/verif/build/units/%s.rs" % unit).read().split("\n")
n = 0
for line in p.stderr.split("\n"):
    if not line.startswith("{"):
        continue
    d = json.loads(line)
    if d.get("level") != "error":
        continue
    n += 1
    msg = d["message"]
    spans = d.get("spans", [])
    out = []
    for s in spans:
        out.append("%s L%d%s: %s" % ("*" if s.get("is_primary") else " ", s["line_start"], (" [" + s["label"] + "]") if s.get("label") else "", src[s["line_start"] - 1].strip()[:110]))
    print("ERR %s\n   %s" % (msg[:200], "\n   ".join(out)))
print(p.stdout[-600:])
print("errors:", n)

#!/bin/bash
# Builds the dependency rlibs (regex, aho-corasick, serde_yaml, serde_json) with Verus's pinned toolchain,
# offline, from the vendored cargo registry.  Nothing here depends on /repo's sources except Cargo.lock.
set -e
cd "$(dirname "$0")"
mkdir -p build/depcrate/src
cat > build/depcrate/Cargo.toml <<'EOF'
[package]
name = "depcrate"
version = "0.0.0"
edition = "2021"

[dependencies]
aho-corasick = "1.0"
regex = "1.0"
serde = { version = "1.0", features = ["derive"] }
serde_yaml = "0.9"
serde_json = "1.0"
EOF
echo "" > build/depcrate/src/lib.rs
cp /repo/Cargo.lock build/depcrate/Cargo.lock
cp /repo/Cargo.lock build/depcrate/Cargo.lock.repo
(cd build/depcrate && CARGO_NET_OFFLINE=true cargo +1.98.1-x86_64-unknown-linux-gnu build --offline --release 2>&1 | tail -3)
ls build/depcrate/target/release/deps/libregex-*.rlib build/depcrate/target/release/deps/libaho_corasick-*.rlib >/dev/null
echo "setup ok"

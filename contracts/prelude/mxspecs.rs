// ---- prelude/mxspecs.rs: assumed contracts of the std / crate functions matrix() leans on (expression holes)

// shake_1 is not under contract; matrix() calls it on the operands of all()/of() only
#[verifier::external_body]
fn shake_1(expression: Expression) -> (r: Expression)
    ensures
        forall|ids: Ids| mx_pre(expression, ids) ==> #[trigger] sh_post(r, expression, ids),
        is_term(expression) ==> r == expression,
{ unimplemented!() }

pub open spec fn cols_of(v: Seq<(String, u32)>) -> Seq<String> { v.map_values(|p: (String, u32)| p.0) }

// every pair of `v` is an entry (key, its count) of the map
pub open spec fn pairs_from(v: Seq<(String, u32)>, m: Map<String, u32>) -> bool {
    forall|i: int| 0 <= i < v.len() ==> m.contains_key((#[trigger] v[i]).0) && m[v[i].0] == v[i].1
}
pub open spec fn sorted_by_count(v: Seq<(String, u32)>) -> bool {
    forall|i: int, j: int| 0 <= i < j < v.len() ==> (#[trigger] v[i]).1 <= (#[trigger] v[j]).1
}
// the columns are in non-decreasing order of their counts (C12: with pairwise distinct counts the order is a function of the rule)
pub open spec fn cols_by_count(cols: Seq<String>, m: Map<String, u32>) -> bool {
    forall|i: int, j: int| 0 <= i < j < cols.len() ==> m.contains_key(#[trigger] cols[i]) && m.contains_key(#[trigger] cols[j]) && m[cols[i]] <= m[cols[j]]
}

// HashMap::into_iter().collect(): every entry exactly once, in NO specified order
#[verifier::external_body]
pub fn hm_into_vec(fields: HashMap<String, u32>) -> (r: Vec<(String, u32)>)
    ensures
        r@.len() == fields@.len(),
        cols_of(r@).no_duplicates(),
        forall|k: String| fields@.contains_key(k) <==> cols_of(r@).contains(k),
        pairs_from(r@, fields@),
{
    fields.into_iter().collect()
}

// HashMap::into_keys().collect(): every key exactly once, in NO specified order
#[verifier::external_body]
pub fn hm_keys_vec(fields: HashMap<String, u32>) -> (r: Vec<String>)
    ensures
        r@.len() == fields@.len(),
        r@.no_duplicates(),
        forall|k: String| fields@.contains_key(k) <==> r@.contains(k),
{
    fields.into_keys().collect()
}

// HashMap::values(): which counts are seen is irrelevant to correctness (it only decides whether to build a matrix)
#[verifier::external_body]
pub fn hm_values<'a>(fields: &'a HashMap<String, u32>) -> (r: Vec<&'a u32>)
{
    fields.values().collect()
}

// sort_by(|x, y| x.1.cmp(&y.1)): permutes its slice into non-decreasing order of the second components (std: slice::sort_by)
#[verifier::external_body]
pub fn sort_by_count(columns: &mut Vec<(String, u32)>)
    ensures
        final(columns)@.len() == old(columns)@.len(),
        cols_of(old(columns)@).no_duplicates() ==> cols_of(final(columns)@).no_duplicates(),
        forall|k: String| cols_of(old(columns)@).contains(k) <==> cols_of(final(columns)@).contains(k),
        forall|i: int| 0 <= i < final(columns)@.len() ==> old(columns)@.contains(#[trigger] final(columns)@[i]),
        sorted_by_count(final(columns)@),
{
    columns.sort_by(|x, y| x.1.cmp(&y.1))
}

#[verifier::external_body]
pub fn firsts(columns: Vec<(String, u32)>) -> (r: Vec<String>)
    ensures r@ == cols_of(columns@),
{
    columns.into_iter().map(|(c, _)| c).collect()
}

// char::from_u32: every value below the surrogate range is a char with that code
pub assume_specification [core::char::from_u32](i: u32) -> (r: Option<char>)
    ensures i < 0xD800 ==> r is Some && r->Some_0 as u32 == i;

// -- slice.iter() by reference (for-loops that `break` are desugared over this wrapper)
#[verifier::external_body]
#[verifier::reject_recursive_types(T)]
pub struct RefIter<'a, T>(std::slice::Iter<'a, T>);

impl<'a, T> RefIter<'a, T> {
    pub uninterp spec fn v(&self) -> Seq<T>;
    pub uninterp spec fn i(&self) -> int;

    #[verifier::external_body]
    pub fn nxt(&mut self) -> (r: Option<&'a T>)
        ensures
            final(self).v() == old(self).v(),
            match r {
                Some(p) => old(self).i() < old(self).v().len() && *p == old(self).v()[old(self).i()]
                    && final(self).i() == old(self).i() + 1,
                None => old(self).i() >= old(self).v().len() && final(self).i() == old(self).i(),
            },
    {
        self.0.next()
    }
}

#[verifier::external_body]
pub fn ref_iter<'a, T>(v: &'a Vec<T>) -> (r: RefIter<'a, T>)
    ensures r.v() == v@, r.i() == 0,
{
    RefIter(v.iter())
}

// derived / std Clone impls: a clone denotes the same value
pub assume_specification[ <Search as Clone>::clone ](s: &Search) -> (r: Search)
    ensures r == *s;
pub assume_specification[ <ModSym as Clone>::clone ](s: &ModSym) -> (r: ModSym)
    ensures r == *s;

// char -> String
pub broadcast axiom fn axiom_to_string_char(c: &char, r: String)
    requires #[trigger] vstd::string::to_string_from_display_ensures::<char>(c, r), ensures r@ == seq![*c];

// String == String compares the text (the blanket reference impl of PartialEq carries no vstd postcondition: expression hole)
#[verifier::external_body]
pub fn string_eq(a: &String, b: &String) -> (r: bool)
    ensures r == (*a == *b), r == (a@ == b@),
{
    a == b
}

// Entry::or_insert_with (vstd specifies or_insert only): the present value is kept, otherwise the closure's result is
// inserted; stated over vstd's Entry model (value / final_value) so that a change which starts using it is judged
pub assume_specification<'a, K, V, A: std::alloc::Allocator, F: FnOnce() -> V>[ std::collections::hash_map::Entry::<'a, K, V, A>::or_insert_with ](e: std::collections::hash_map::Entry<'a, K, V, A>, f: F) -> (r: &'a mut V)
    ensures
        match e.value() { Some(v) => *r == v, None => f.ensures((), *r) },
        e.final_value() == Some(*final(r)),
;

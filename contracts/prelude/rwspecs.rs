// ---- prelude/rwspecs.rs: std / regex functions the rewrite pass uses (copied from prelude/identspecs.rs where shared)
#[verifier::external_type_specification]
#[verifier::external_body]
pub struct ExRegexBuilder(RegexBuilder);
#[verifier::external_type_specification]
#[verifier::external_body]
pub struct ExRegexError(regex::Error);
#[verifier::external_type_specification]
#[verifier::external_body]
pub struct ExRegexSetBuilder(RegexSetBuilder);

pub uninterp spec fn regex_text(r: &Regex) -> Seq<char>;
pub assume_specification<'a>[ Regex::as_str ](r: &'a Regex) -> (s: &'a str)
    ensures s@ == regex_text(r);

// -- strip_prefix / strip_suffix / starts_with / ends_with on chars and string literals, at char level
pub uninterp spec fn pat_chars<P>(p: P) -> Seq<char>;
pub broadcast axiom fn axiom_pat_chars_char(c: char) ensures #[trigger] pat_chars::<char>(c) == seq![c];
pub broadcast axiom fn axiom_pat_chars_str(s: &str) ensures #[trigger] pat_chars::<&str>(s) == s@;
// elementary char-level prefix / suffix
pub open spec fn prefix_of(p: Seq<char>, s: Seq<char>) -> bool {
    p.len() <= s.len() && forall|i: int| 0 <= i < p.len() ==> #[trigger] s[i] == p[i]
}
pub open spec fn suffix_of(p: Seq<char>, s: Seq<char>) -> bool {
    p.len() <= s.len() && forall|i: int| 0 <= i < p.len() ==> #[trigger] s[s.len() - p.len() + i] == p[i]
}
// UTF-8 is prefix-free and self-synchronising: for a single char the byte-level prefix/suffix tests of
// str::starts_with / ends_with agree with looking at the first / last char
pub broadcast axiom fn axiom_b_starts_with_char(h: Seq<char>, c: char)
    ensures #[trigger] b_starts_with(bytes(h), bytes(seq![c])) == (h.len() > 0 && h[0] == c);
pub broadcast axiom fn axiom_b_ends_with_char(h: Seq<char>, c: char)
    ensures #[trigger] b_ends_with(bytes(h), bytes(seq![c])) == (h.len() > 0 && h[h.len() - 1] == c);

pub assume_specification<'a, P: std::str::pattern::Pattern>[ str::strip_prefix::<P> ](s: &'a str, p: P) -> (r: Option<&'a str>)
    ensures match r {
        Some(t) => prefix_of(pat_chars(p), s@) && t@ == s@.skip(pat_chars(p).len() as int),
        None => !prefix_of(pat_chars(p), s@),
    };
pub assume_specification<'a, P: std::str::pattern::Pattern>[ str::strip_suffix::<P> ](s: &'a str, p: P) -> (r: Option<&'a str>)
    where for<'b> P::Searcher<'b>: std::str::pattern::ReverseSearcher<'b>
    ensures match r {
        Some(t) => suffix_of(pat_chars(p), s@) && t@ == s@.take(s@.len() - pat_chars(p).len()),
        None => !suffix_of(pat_chars(p), s@),
    };

// -- regex building (language uninterpreted: what is pinned is which pattern text and flag reach the builder)
pub uninterp spec fn regex_of(pattern: Seq<char>, insensitive: bool) -> Option<Regex>;
pub uninterp spec fn rb_pattern(b: RegexBuilder) -> Seq<char>;
pub uninterp spec fn rb_ci(b: RegexBuilder) -> bool;
pub assume_specification[ RegexBuilder::new ](p: &str) -> (b: RegexBuilder)
    ensures rb_pattern(b) == p@, rb_ci(b) == false;
pub assume_specification<'a>[ RegexBuilder::case_insensitive ](b: &'a mut RegexBuilder, yes: bool) -> (r: &'a mut RegexBuilder)
    ensures rb_pattern(*final(b)) == rb_pattern(*old(b)), rb_ci(*final(b)) == yes, *r == *final(b);
pub assume_specification[ RegexBuilder::build ](b: &RegexBuilder) -> (r: std::result::Result<Regex, regex::Error>)
    ensures match r { Ok(re) => regex_of(rb_pattern(*b), rb_ci(*b)) == Some(re), Err(_) => regex_of(rb_pattern(*b), rb_ci(*b)) is None };


// RegexSetBuilder, modelled call by call (as in prelude/batchspecs.rs): `new(patterns)` records the pattern texts,
// `case_insensitive(yes)` the flag, `build()` may fail; when it succeeds the set is ASSUMED to be one whose member i accepts
// exactly what the regex built from pattern i with that flag accepts (rs_of).  RegexSet::new(patterns) is the builder with
// its default flags (regex-1.x documentation).  The regex LANGUAGE stays uninterpreted.
pub uninterp spec fn rsb_pats(b: RegexSetBuilder) -> Seq<Seq<char>>;
pub uninterp spec fn rsb_ci(b: RegexSetBuilder) -> bool;
pub uninterp spec fn pattern_texts<I>(p: I) -> Seq<Seq<char>>;
pub open spec fn texts(ns: Seq<String>) -> Seq<Seq<char>> { Seq::new(ns.len(), |i: int| ns[i]@) }
pub broadcast axiom fn axiom_pattern_texts_vec(v: Vec<String>)
    ensures #[trigger] pattern_texts::<Vec<String>>(v) == texts(v@);
pub open spec fn pat_lang(p: Seq<char>, ci: bool, x: Seq<char>) -> bool {
    regex_of(p, ci) is Some && regex_is_match(&regex_of(p, ci)->Some_0, x)
}
pub open spec fn rs_of(s: &RegexSet, pats: Seq<Seq<char>>, ci: bool) -> bool {
    &&& regexset_len(s) == pats.len()
    &&& forall|x: Seq<char>| #[trigger] regexset_is_match(s, x) == (exists|i: int| 0 <= i < pats.len() && pat_lang(#[trigger] pats[i], ci, x))
    &&& forall|x: Seq<char>, i: int| 0 <= i < pats.len() ==> #[trigger] regexset_member_match(s, i, x) == pat_lang(pats[i], ci, x)
}
pub assume_specification<I: IntoIterator<Item = S>, S: AsRef<str>>[ RegexSetBuilder::new::<I, S> ](patterns: I) -> (b: RegexSetBuilder)
    ensures rsb_pats(b) == pattern_texts::<I>(patterns), rsb_ci(b) == false;
pub assume_specification<'a>[ RegexSetBuilder::case_insensitive ](b: &'a mut RegexSetBuilder, yes: bool) -> (r: &'a mut RegexSetBuilder)
    ensures rsb_pats(*final(b)) == rsb_pats(*old(b)), rsb_ci(*final(b)) == yes, *r == *final(b);
pub assume_specification[ RegexSetBuilder::build ](b: &RegexSetBuilder) -> (r: std::result::Result<RegexSet, regex::Error>)
    ensures r is Ok ==> rs_of(&r->Ok_0, rsb_pats(*b), rsb_ci(*b));
pub assume_specification<I: IntoIterator<Item = S>, S: AsRef<str>>[ RegexSet::new::<I, S> ](patterns: I) -> (r: std::result::Result<RegexSet, regex::Error>)
    ensures r is Ok ==> rs_of(&r->Ok_0, pattern_texts::<I>(patterns), false);

// String::to_owned (the blanket ToOwned impl carries no vstd postcondition: expression hole)
#[verifier::external_body]
pub fn string_to_owned(s: &String) -> (r: String)
    ensures r == *s,
{
    s.to_owned()
}

// ---- prelude/rwspecs.rs: std / regex functions the rewrite pass uses (copied from prelude/identspecs.rs where shared)
#[verifier::external_type_specification]
#[verifier::external_body]
pub struct ExRegexBuilder(RegexBuilder);
#[verifier::external_type_specification]
#[verifier::external_body]
pub struct ExRegexError(regex::Error);
#[verifier::external_type_specification]
#[verifier::external_body]
pub struct ExRegexSetBuilder(RegexSetBuilder);

pub uninterp spec fn regex_text(r: &Regex) -> Seq<char>;
pub assume_specification<'a>[ Regex::as_str ](r: &'a Regex) -> (s: &'a str)
    ensures s@ == regex_text(r);

// -- strip_prefix / strip_suffix / starts_with / ends_with on chars and string literals, at char level
pub uninterp spec fn pat_chars<P>(p: P) -> Seq<char>;
pub broadcast axiom fn axiom_pat_chars_char(c: char) ensures #[trigger] pat_chars::<char>(c) == seq![c];
pub broadcast axiom fn axiom_pat_chars_str(s: &str) ensures #[trigger] pat_chars::<&str>(s) == s@;
// elementary char-level prefix / suffix
pub open spec fn prefix_of(p: Seq<char>, s: Seq<char>) -> bool {
    p.len() <= s.len() && forall|i: int| 0 <= i < p.len() ==> #[trigger] s[i] == p[i]
}
pub open spec fn suffix_of(p: Seq<char>, s: Seq<char>) -> bool {
    p.len() <= s.len() && forall|i: int| 0 <= i < p.len() ==> #[trigger] s[s.len() - p.len() + i] == p[i]
}
// UTF-8 is prefix-free and self-synchronising: for a single char the byte-level prefix/suffix tests of
// str::starts_with / ends_with agree with looking at the first / last char
pub broadcast axiom fn axiom_b_starts_with_char(h: Seq<char>, c: char)
    ensures #[trigger] b_starts_with(bytes(h), bytes(seq![c])) == (h.len() > 0 && h[0] == c);
pub broadcast axiom fn axiom_b_ends_with_char(h: Seq<char>, c: char)
    ensures #[trigger] b_ends_with(bytes(h), bytes(seq![c])) == (h.len() > 0 && h[h.len() - 1] == c);

pub assume_specification<'a, P: std::str::pattern::Pattern>[ str::strip_prefix::<P> ](s: &'a str, p: P) -> (r: Option<&'a str>)
    ensures match r {
        Some(t) => prefix_of(pat_chars(p), s@) && t@ == s@.skip(pat_chars(p).len() as int),
        None => !prefix_of(pat_chars(p), s@),
    };
pub assume_specification<'a, P: std::str::pattern::Pattern>[ str::strip_suffix::<P> ](s: &'a str, p: P) -> (r: Option<&'a str>)
    where for<'b> P::Searcher<'b>: std::str::pattern::ReverseSearcher<'b>
    ensures match r {
        Some(t) => suffix_of(pat_chars(p), s@) && t@ == s@.take(s@.len() - pat_chars(p).len()),
        None => !suffix_of(pat_chars(p), s@),
    };

// -- regex building (language uninterpreted: what is pinned is which pattern text and flag reach the builder)
pub uninterp spec fn regex_of(pattern: Seq<char>, insensitive: bool) -> Option<Regex>;
pub uninterp spec fn rb_pattern(b: RegexBuilder) -> Seq<char>;
pub uninterp spec fn rb_ci(b: RegexBuilder) -> bool;
pub assume_specification[ RegexBuilder::new ](p: &str) -> (b: RegexBuilder)
    ensures rb_pattern(b) == p@, rb_ci(b) == false;
pub assume_specification<'a>[ RegexBuilder::case_insensitive ](b: &'a mut RegexBuilder, yes: bool) -> (r: &'a mut RegexBuilder)
    ensures rb_pattern(*final(b)) == rb_pattern(*old(b)), rb_ci(*final(b)) == yes, *r == *final(b);
pub assume_specification[ RegexBuilder::build ](b: &RegexBuilder) -> (r: std::result::Result<Regex, regex::Error>)
    ensures match r { Ok(re) => regex_of(rb_pattern(*b), rb_ci(*b)) == Some(re), Err(_) => regex_of(rb_pattern(*b), rb_ci(*b)) is None };


// RegexSetBuilder: which patterns and flag reach the builder is not modelled (the set language is uninterpreted);
// build() may fail
pub assume_specification<I: IntoIterator<Item = S>, S: AsRef<str>>[ RegexSetBuilder::new::<I, S> ](patterns: I) -> (b: RegexSetBuilder);
pub assume_specification<'a>[ RegexSetBuilder::case_insensitive ](b: &'a mut RegexSetBuilder, yes: bool) -> (r: &'a mut RegexSetBuilder);
pub assume_specification[ RegexSetBuilder::build ](b: &RegexSetBuilder) -> (r: std::result::Result<RegexSet, regex::Error>);

// String::to_owned (the blanket ToOwned impl carries no vstd postcondition: expression hole)
#[verifier::external_body]
pub fn string_to_owned(s: &String) -> (r: String)
    ensures r == *s,
{
    s.to_owned()
}

// ---- prelude/s1specs.rs: nothing beyond rwspecs is needed by the verified arms of shake_1; the two group arms are block
// holes whose bodies are kept verbatim (they must still compile: HashMap, the builders and MatchType are in scope)

// ---- prelude/pipe_passes.rs: the optimiser passes as seen from Rule::optimise: bodies elsewhere, contracts only.
// Each `*_post` is an opaque relation standing for the postcondition proved for the real function in its own unit
// (coalesce, shake_0: unit optimiser; shake_1: units shake1 / batch; rewrite: unit rewrite; matrix: unit matrix).
#[verifier::external_body]
pub fn coalesce(expression: Expression, identifiers: &HashMap<String, Expression>) -> (r: Expression)
    ensures coalesce_post(r, expression, identifiers@),
{ unimplemented!() }
#[verifier::external_body]
fn shake_0(expression: Expression) -> (r: Expression)
    ensures shake0_post(r, expression),
{ unimplemented!() }
#[verifier::external_body]
fn shake_1(expression: Expression) -> (r: Expression)
    ensures shake1_post(r, expression),
{ unimplemented!() }
#[verifier::external_body]
pub fn rewrite(expression: Expression) -> (r: Expression)
    ensures rewrite_post(r, expression),
{ unimplemented!() }
#[verifier::external_body]
pub fn matrix(expression: Expression) -> (r: Expression)
    ensures matrix_post(r, expression),
{ unimplemented!() }

// ---- prelude/externals_re.rs: external types and traits (trusted declarations)
#[verifier::external_type_specification]
#[verifier::external_body]
pub struct ExRegex(Regex);
#[verifier::external_type_specification]
#[verifier::external_body]
pub struct ExRegexSet(RegexSet);
#[verifier::external_type_specification]
#[verifier::external_body]
pub struct ExAhoCorasick(AhoCorasick);


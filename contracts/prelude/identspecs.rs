// ---- prelude/identspecs.rs: trusted specs for the std / regex calls of into_identifier (char-level model)
#[verifier::external_type_specification]
#[verifier::external_body]
pub struct ExRegex(Regex);
#[verifier::external_type_specification]
#[verifier::external_body]
pub struct ExRegexBuilder(RegexBuilder);
#[verifier::external_type_specification]
#[verifier::external_body]
pub struct ExRegexError(regex::Error);

// -- strip_prefix / strip_suffix / starts_with / ends_with on chars and string literals, at char level
pub uninterp spec fn pat_chars<P>(p: P) -> Seq<char>;
pub broadcast axiom fn axiom_pat_chars_char(c: char) ensures #[trigger] pat_chars::<char>(c) == seq![c];
pub broadcast axiom fn axiom_pat_chars_str(s: &str) ensures #[trigger] pat_chars::<&str>(s) == s@;
// elementary char-level prefix / suffix
pub open spec fn prefix_of(p: Seq<char>, s: Seq<char>) -> bool {
    p.len() <= s.len() && forall|i: int| 0 <= i < p.len() ==> #[trigger] s[i] == p[i]
}
pub open spec fn suffix_of(p: Seq<char>, s: Seq<char>) -> bool {
    p.len() <= s.len() && forall|i: int| 0 <= i < p.len() ==> #[trigger] s[s.len() - p.len() + i] == p[i]
}
// UTF-8 is prefix-free and self-synchronising: for a single char the byte-level prefix/suffix tests of
// str::starts_with / ends_with agree with looking at the first / last char
pub broadcast axiom fn axiom_b_starts_with_char(h: Seq<char>, c: char)
    ensures #[trigger] b_starts_with(bytes(h), bytes(seq![c])) == (h.len() > 0 && h[0] == c);
pub broadcast axiom fn axiom_b_ends_with_char(h: Seq<char>, c: char)
    ensures #[trigger] b_ends_with(bytes(h), bytes(seq![c])) == (h.len() > 0 && h[h.len() - 1] == c);

pub assume_specification<'a, P: std::str::pattern::Pattern>[ str::strip_prefix::<P> ](s: &'a str, p: P) -> (r: Option<&'a str>)
    ensures match r {
        Some(t) => prefix_of(pat_chars(p), s@) && t@ == s@.skip(pat_chars(p).len() as int),
        None => !prefix_of(pat_chars(p), s@),
    };
pub assume_specification<'a, P: std::str::pattern::Pattern>[ str::strip_suffix::<P> ](s: &'a str, p: P) -> (r: Option<&'a str>)
    where for<'b> P::Searcher<'b>: std::str::pattern::ReverseSearcher<'b>
    ensures match r {
        Some(t) => suffix_of(pat_chars(p), s@) && t@ == s@.take(s@.len() - pat_chars(p).len()),
        None => !suffix_of(pat_chars(p), s@),
    };

// -- case folding (Unicode to_lowercase; uninterpreted)
pub uninterp spec fn lower(s: Seq<char>) -> Seq<char>;
pub assume_specification[ str::to_lowercase ](s: &str) -> (r: String) ensures r@ == lower(s@);

// -- &s[a..b]: byte offsets; panics unless a <= b <= len and both are char boundaries
pub uninterp spec fn char_boundary(s: Seq<char>, byte_off: int) -> bool;
pub uninterp spec fn byte_slice(s: Seq<char>, a: int, b: int) -> Seq<char>;
// an ASCII first/last char occupies exactly one byte; byte length >= char count
pub broadcast axiom fn axiom_boundary_after_ascii_first(s: Seq<char>)
    requires s.len() > 0, (s[0] as u32) < 128,
    ensures #[trigger] char_boundary(s, 1);
pub broadcast axiom fn axiom_boundary_before_ascii_last(s: Seq<char>)
    requires s.len() > 0, (s[s.len() - 1] as u32) < 128,
    ensures #[trigger] char_boundary(s, bytes(s).len() - 1);
pub broadcast axiom fn axiom_bytes_len_ge_chars(s: Seq<char>)
    ensures #[trigger] bytes(s).len() >= s.len();
// slicing off an ASCII first and last char at byte level is the char-level subrange
pub broadcast axiom fn axiom_byte_slice_inner(s: Seq<char>)
    requires s.len() >= 2, (s[0] as u32) < 128, (s[s.len() - 1] as u32) < 128,
    ensures #[trigger] byte_slice(s, 1, bytes(s).len() - 1) == s.subrange(1, s.len() - 1);
pub broadcast axiom fn axiom_byte_slice_full(s: Seq<char>)
    ensures #[trigger] byte_slice(s, 0, bytes(s).len() as int) == s;

#[verifier::external_body]
pub fn str_slice<'a>(s: &'a str, a: usize, b: usize) -> (r: &'a str)
    requires a <= b <= bytes(s@).len(), char_boundary(s@, a as int), char_boundary(s@, b as int),
    ensures r@ == byte_slice(s@, a as int, b as int),
{
    &s[a..b]
}
#[verifier::external_body]
pub fn str_full<'a>(s: &'a String) -> (r: &'a str)
    ensures r@ == s@,
{
    &s[..]
}

// -- regex building (language uninterpreted: what is pinned is which pattern text and flag reach the builder)
pub uninterp spec fn regex_of(pattern: Seq<char>, insensitive: bool) -> Option<Regex>;
pub uninterp spec fn rb_pattern(b: RegexBuilder) -> Seq<char>;
pub uninterp spec fn rb_ci(b: RegexBuilder) -> bool;
pub assume_specification[ RegexBuilder::new ](p: &str) -> (b: RegexBuilder)
    ensures rb_pattern(b) == p@, rb_ci(b) == false;
pub assume_specification<'a>[ RegexBuilder::case_insensitive ](b: &'a mut RegexBuilder, yes: bool) -> (r: &'a mut RegexBuilder)
    ensures rb_pattern(*final(b)) == rb_pattern(*old(b)), rb_ci(*final(b)) == yes, *r == *final(b);
pub assume_specification[ RegexBuilder::build ](b: &RegexBuilder) -> (r: std::result::Result<Regex, regex::Error>)
    ensures match r { Ok(re) => regex_of(rb_pattern(*b), rb_ci(*b)) == Some(re), Err(_) => regex_of(rb_pattern(*b), rb_ci(*b)) is None };

pub assume_specification[ <String as PartialEq<str>>::eq ](a: &String, b: &str) -> (r: bool)
    ensures r == (a@ == b@);

// which build this unit was generated for (the unit is verified once per cfg: `verus --cfg feature="ignore_case"`)
pub open spec fn cfg_ignore_case() -> bool { cfg!(feature = "ignore_case") }

pub broadcast axiom fn axiom_to_string_str(x: &str, r: String)
    requires #[trigger] vstd::string::to_string_from_display_ensures::<str>(x, r), ensures r@ == x@;

// ---- prelude/scanspecs.rs: what the scan slice needs from outside
// serde's error constructor (de::Error::custom): only that an error value is built
pub mod de {
    use super::*;
    use vstd::prelude::*;
    verus! {
    #[verifier::external_body]
    pub struct Error { inner: () }
    impl Error {
        #[verifier::external_body] pub fn custom<T>(_t: T) -> Error { Error { inner: () } }
    }
    }
}

pub broadcast axiom fn axiom_string_obeys_key_model_scan()
    ensures #[trigger] obeys_key_model::<String>();

// -- slice.iter() by reference (for-loops with `continue` / `break` are desugared over this wrapper)
#[verifier::external_body]
#[verifier::reject_recursive_types(T)]
pub struct RefIter<'a, T>(std::slice::Iter<'a, T>);

impl<'a, T> RefIter<'a, T> {
    pub uninterp spec fn v(&self) -> Seq<T>;
    pub uninterp spec fn i(&self) -> int;

    #[verifier::external_body]
    pub fn nxt(&mut self) -> (r: Option<&'a T>)
        ensures
            final(self).v() == old(self).v(),
            match r {
                Some(p) => old(self).i() < old(self).v().len() && *p == old(self).v()[old(self).i()]
                    && final(self).i() == old(self).i() + 1,
                None => old(self).i() >= old(self).v().len() && final(self).i() == old(self).i(),
            },
    {
        self.0.next()
    }
}

#[verifier::external_body]
pub fn ref_iter<'a, T>(v: &'a Vec<T>) -> (r: RefIter<'a, T>)
    ensures r.v() == v@, r.i() == 0,
{
    RefIter(v.iter())
}

// ---- prelude/yaml.rs: serde_yaml values as documents (TRUSTED glue; the real impls live in src/yaml.rs and are
// built on iterator adapters and serde_yaml internals)
#[verifier::external_type_specification]
#[verifier::external_body]
pub struct ExYaml(Yaml);
#[verifier::external_type_specification]
#[verifier::external_body]
pub struct ExMapping(Mapping);

pub uninterp spec fn yaml_as_mapping(v: &Yaml) -> Option<Mapping>;
pub assume_specification<'a>[ Yaml::as_mapping ](v: &'a Yaml) -> (r: Option<&'a Mapping>)
    ensures (match r { Some(m) => yaml_as_mapping(v) == Some(*m), None => yaml_as_mapping(v) is None });

pub uninterp spec fn mapping_obj(m: &Mapping) -> ObjM;

// `impl<O: Object> Document for O` instantiated at serde_yaml::Mapping (src/document.rs + src/yaml.rs)
impl Document for Mapping {
    open spec fn model(&self) -> DocM { DocM::Obj(mapping_obj(self)) }
    #[verifier::external_body]
    fn find(&self, key: &str) -> (r: Option<Value<'_>>) {
        unimplemented!()
    }
}

// slice::join(";") (Join trait, outside Verus): the text is a function of the joined messages (joined: uninterpreted)
pub uninterp spec fn joined(msgs: Seq<String>) -> Seq<char>;
#[verifier::external_body]
pub fn join_errors(errors: &Vec<String>) -> (r: String)
    ensures r@ == joined(errors@),
{ errors.join(";") }

pub uninterp spec fn mapping_len(m: &Mapping) -> nat;
pub assume_specification[ Mapping::is_empty ](m: &Mapping) -> (r: bool) ensures r == (mapping_len(m) == 0);
pub assume_specification[ Mapping::len ](m: &Mapping) -> (r: usize) ensures r == mapping_len(m);

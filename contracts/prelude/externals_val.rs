// ---- prelude/externals_val.rs: the Array/Object traits (declared outside verus!)
#[verifier::external_trait_specification]
pub trait ExArray {
    type ExternalTraitSpecificationFor: Array;
    fn len(&self) -> usize;
}
#[verifier::external_trait_specification]
pub trait ExObject {
    type ExternalTraitSpecificationFor: Object;
    fn len(&self) -> usize;
}

// ---- prelude/batchspecs.rs: assumed contracts of the automaton / regex-set builders (expression holes)

// AhoCorasickBuilder (DFA kind, optionally ASCII case-insensitive): assumed to build without error for any needle list,
// and the automaton reports, under overlapping iteration, exactly the occurrences of its needles (ac_of)
#[verifier::external_body]
pub fn build_ac(needles: Vec<String>, ci: bool) -> (r: AhoCorasick)
    ensures ac_of(&r, texts(needles@), ci),
{
    AhoCorasickBuilder::new()
        .ascii_case_insensitive(ci)
        .kind(Some(AhoCorasickKind::DFA))
        .build(needles)
        .expect("failed to build dfa")
}

// RegexSetBuilder over the pattern texts of already-built regexes, with the same case flag: a member of the set
// matches exactly when the regex it was taken from does
#[verifier::external_body]
pub fn build_regex_set(rs: Vec<Regex>, ci: bool) -> (r: RegexSet)
    ensures
        forall|x: Seq<char>| #[trigger] regexset_is_match(&r, x) == any_regex(rs@, x),
        regexset_len(&r) == rs@.len(),
        forall|x: Seq<char>, i: int| 0 <= i < rs@.len() ==> #[trigger] regexset_member_match(&r, i, x) == regex_is_match(&rs@[i], x),
{
    RegexSetBuilder::new(rs.into_iter().map(|r| r.as_str().to_string()).collect::<Vec<_>>())
        .case_insensitive(ci)
        .build()
        .expect("could not build regex set")
}

// String::to_owned (the blanket ToOwned impl carries no vstd postcondition: expression hole)
#[verifier::external_body]
pub fn string_to_owned(s: &String) -> (r: String)
    ensures r == *s,
{
    s.to_owned()
}

// Iterator::unzip over a Vec of pairs (expression hole)
#[verifier::external_body]
pub fn unzip_pairs(v: Vec<(MatchType, String)>) -> (r: (Vec<MatchType>, Vec<String>))
    ensures
        r.0@.len() == v@.len(), r.1@.len() == v@.len(),
        forall|i: int| 0 <= i < v@.len() ==> r.0@[i] == (#[trigger] v@[i]).0 && r.1@[i] == v@[i].1,
{
    v.into_iter().unzip()
}

// serde_yaml::Number: an integer that fits i64, else a float (what as_i64 / as_f64 report; trusted)
#[verifier::external_type_specification]
#[verifier::external_body]
pub struct ExYamlNumber(serde_yaml::Number);
pub uninterp spec fn number_i64(n: &serde_yaml::Number) -> Option<i64>;
pub uninterp spec fn number_f64(n: &serde_yaml::Number) -> Option<f64>;
pub assume_specification[ serde_yaml::Number::as_i64 ](n: &serde_yaml::Number) -> (r: Option<i64>) ensures r == number_i64(n);
pub assume_specification[ serde_yaml::Number::as_f64 ](n: &serde_yaml::Number) -> (r: Option<f64>) ensures r == number_f64(n);

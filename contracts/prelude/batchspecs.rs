// ---- prelude/batchspecs.rs: assumed contracts of the automaton / regex-set builders (expression holes)

// AhoCorasickBuilder, modelled call by call so that the chain in the real code stays the real code: `new()` starts
// case-sensitive, `ascii_case_insensitive(yes)` sets the flag, `kind(..)` keeps it, and `build(needles)` is ASSUMED to
// succeed and to return an automaton that reports, under overlapping iteration, exactly the occurrences of its needles
// under that flag (ac_of).  Only `build` carries an assumption about aho-corasick itself.
#[verifier::external_type_specification]
#[verifier::external_body]
pub struct ExAhoCorasickBuilder(AhoCorasickBuilder);
#[verifier::external_type_specification]
pub struct ExAhoCorasickKind(AhoCorasickKind);
#[verifier::external_type_specification]
#[verifier::external_body]
pub struct ExAcBuildError(aho_corasick::BuildError);

pub uninterp spec fn acb_ci(b: AhoCorasickBuilder) -> bool;
pub uninterp spec fn needle_texts<I>(p: I) -> Seq<Seq<char>>;
pub broadcast axiom fn axiom_needle_texts_vec(v: Vec<String>)
    ensures #[trigger] needle_texts::<Vec<String>>(v) == texts(v@);

pub assume_specification[ AhoCorasickBuilder::new ]() -> (b: AhoCorasickBuilder)
    ensures acb_ci(b) == false;
pub assume_specification<'a>[ AhoCorasickBuilder::ascii_case_insensitive ](b: &'a mut AhoCorasickBuilder, yes: bool) -> (r: &'a mut AhoCorasickBuilder)
    ensures acb_ci(*final(b)) == yes, *r == *final(b);
pub assume_specification<'a>[ AhoCorasickBuilder::kind ](b: &'a mut AhoCorasickBuilder, k: Option<AhoCorasickKind>) -> (r: &'a mut AhoCorasickBuilder)
    ensures acb_ci(*final(b)) == acb_ci(*old(b)), *r == *final(b);
pub assume_specification<I: IntoIterator<Item = P>, P: AsRef<[u8]>>[ AhoCorasickBuilder::build::<I, P> ](b: &AhoCorasickBuilder, patterns: I) -> (r: std::result::Result<AhoCorasick, aho_corasick::BuildError>)
    ensures r is Ok && ac_of(&r->Ok_0, needle_texts::<I>(patterns), acb_ci(*b));

// RegexSetBuilder, modelled call by call: `new(patterns)` records the pattern texts, `case_insensitive(yes)` the flag, and
// `build()` may fail (the set has its own size limit); when it succeeds the set is ASSUMED to be one whose member i accepts
// exactly what the regex built from pattern i with that flag accepts (rs_of).  The regex LANGUAGE stays uninterpreted: regex_of(pattern, flag) is "the regex the
// builder makes of that text", and a Regex remembers its text (regex_text).
#[verifier::external_type_specification]
#[verifier::external_body]
pub struct ExRegexSetBuilder(RegexSetBuilder);
#[verifier::external_type_specification]
#[verifier::external_body]
pub struct ExRegexError(regex::Error);

pub uninterp spec fn regex_of(pattern: Seq<char>, insensitive: bool) -> Option<Regex>;
pub uninterp spec fn regex_text(r: &Regex) -> Seq<char>;
pub uninterp spec fn rsb_pats(b: RegexSetBuilder) -> Seq<Seq<char>>;
pub uninterp spec fn rsb_ci(b: RegexSetBuilder) -> bool;
pub uninterp spec fn pattern_texts<I>(p: I) -> Seq<Seq<char>>;
pub broadcast axiom fn axiom_pattern_texts_vec(v: Vec<String>)
    ensures #[trigger] pattern_texts::<Vec<String>>(v) == texts(v@);

pub open spec fn pat_lang(p: Seq<char>, ci: bool, x: Seq<char>) -> bool {
    regex_of(p, ci) is Some && regex_is_match(&regex_of(p, ci)->Some_0, x)
}
pub open spec fn rs_of(s: &RegexSet, pats: Seq<Seq<char>>, ci: bool) -> bool {
    &&& regexset_len(s) == pats.len()
    &&& forall|x: Seq<char>| #[trigger] regexset_is_match(s, x) == (exists|i: int| 0 <= i < pats.len() && pat_lang(#[trigger] pats[i], ci, x))
    &&& forall|x: Seq<char>, i: int| 0 <= i < pats.len() ==> #[trigger] regexset_member_match(s, i, x) == pat_lang(pats[i], ci, x)
}

pub assume_specification<I: IntoIterator<Item = S>, S: AsRef<str>>[ RegexSetBuilder::new::<I, S> ](patterns: I) -> (b: RegexSetBuilder)
    ensures rsb_pats(b) == pattern_texts::<I>(patterns), rsb_ci(b) == false;
pub assume_specification<'a>[ RegexSetBuilder::case_insensitive ](b: &'a mut RegexSetBuilder, yes: bool) -> (r: &'a mut RegexSetBuilder)
    ensures rsb_pats(*final(b)) == rsb_pats(*old(b)), rsb_ci(*final(b)) == yes, *r == *final(b);
pub assume_specification[ RegexSetBuilder::build ](b: &RegexSetBuilder) -> (r: std::result::Result<RegexSet, regex::Error>)
    ensures r is Ok ==> rs_of(&r->Ok_0, rsb_pats(*b), rsb_ci(*b));

// `.into_iter().map(|r| r.as_str().to_string()).collect::<Vec<_>>()`: the pattern texts of the regexes, in order (expression hole)
#[verifier::external_body]
pub fn regex_texts(rs: Vec<Regex>) -> (r: Vec<String>)
    ensures r@.len() == rs@.len(), forall|i: int| 0 <= i < rs@.len() ==> (#[trigger] r@[i])@ == regex_text(&rs@[i]),
{
    rs.into_iter().map(|r| r.as_str().to_string()).collect::<Vec<_>>()
}

// String::to_owned (the blanket ToOwned impl carries no vstd postcondition: expression hole)
#[verifier::external_body]
pub fn string_to_owned(s: &String) -> (r: String)
    ensures r == *s,
{
    s.to_owned()
}

// Iterator::unzip over a Vec of pairs (expression hole)
#[verifier::external_body]
pub fn unzip_pairs(v: Vec<(MatchType, String)>) -> (r: (Vec<MatchType>, Vec<String>))
    ensures
        r.0@.len() == v@.len(), r.1@.len() == v@.len(),
        forall|i: int| 0 <= i < v@.len() ==> r.0@[i] == (#[trigger] v@[i]).0 && r.1@[i] == v@[i].1,
{
    v.into_iter().unzip()
}

// serde_yaml::Number: an integer that fits i64, else a float (what as_i64 / as_f64 report; trusted)
#[verifier::external_type_specification]
#[verifier::external_body]
pub struct ExYamlNumber(serde_yaml::Number);
pub uninterp spec fn number_i64(n: &serde_yaml::Number) -> Option<i64>;
pub uninterp spec fn number_f64(n: &serde_yaml::Number) -> Option<f64>;
pub assume_specification[ serde_yaml::Number::as_i64 ](n: &serde_yaml::Number) -> (r: Option<i64>) ensures r == number_i64(n);
pub assume_specification[ serde_yaml::Number::as_f64 ](n: &serde_yaml::Number) -> (r: Option<f64>) ensures r == number_f64(n);

// RegexBuilder, call by call (as in prelude/identspecs.rs): which pattern text and flag reach build()
#[verifier::external_type_specification]
#[verifier::external_body]
pub struct ExRegexBuilder(RegexBuilder);
pub uninterp spec fn rb_pattern(b: RegexBuilder) -> Seq<char>;
pub uninterp spec fn rb_ci(b: RegexBuilder) -> bool;
pub assume_specification[ RegexBuilder::new ](p: &str) -> (b: RegexBuilder)
    ensures rb_pattern(b) == p@, rb_ci(b) == false;
pub assume_specification<'a>[ RegexBuilder::case_insensitive ](b: &'a mut RegexBuilder, yes: bool) -> (r: &'a mut RegexBuilder)
    ensures rb_pattern(*final(b)) == rb_pattern(*old(b)), rb_ci(*final(b)) == yes, *r == *final(b);
pub assume_specification[ RegexBuilder::build ](b: &RegexBuilder) -> (r: std::result::Result<Regex, regex::Error>)
    ensures match r { Ok(re) => regex_of(rb_pattern(*b), rb_ci(*b)) == Some(re), Err(_) => regex_of(rb_pattern(*b), rb_ci(*b)) is None };
pub broadcast axiom fn axiom_pattern_texts_vec_ref(v: &Vec<String>)
    ensures #[trigger] pattern_texts::<&Vec<String>>(v) == texts(v@);

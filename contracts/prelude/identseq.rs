// ---- prelude/identseq.rs: vocabulary of parse_identifier (unit keys)
// parse_mapping as seen from its caller: a function of the mapping - the block it denotes, or None when it is rejected
pub uninterp spec fn pm_ok(m: Mapping) -> Option<Expression>;
#[verifier::external_body]
fn parse_mapping(mapping: &Mapping) -> (r: crate::Result<Expression>)
    ensures match r { Ok(e) => pm_ok(*mapping) == Some(e), Err(_) => pm_ok(*mapping) is None },
{ unimplemented!() }

pub open spec fn y_map(v: Yaml) -> Mapping { match v { Yaml::Mapping(m) => m, _ => arbitrary() } }
pub open spec fn y_seq(v: Yaml) -> Seq<Yaml> { match v { Yaml::Sequence(s) => s@, _ => Seq::<Yaml>::empty() } }

// entry i of a sequence is a mapping that parse_mapping accepts
pub open spec fn entry_ok(s: Seq<Yaml>, i: int) -> bool {
    s[i] is Mapping && pm_ok(y_map(s[i])) is Some
}
pub open spec fn entries_ok(s: Seq<Yaml>, n: int) -> bool {
    forall|i: int| 0 <= i < n ==> entry_ok(s, i)
}
// the blocks of the first n entries, in written order
pub open spec fn blocks_of(s: Seq<Yaml>, v: Seq<Expression>, n: int) -> bool {
    v.len() == n && forall|i: int| 0 <= i < n ==> #[trigger] v[i] == pm_ok(y_map(s[i]))->Some_0
}

// serde_yaml::Value kind tests (documented: true exactly for that variant); specified so that a change that starts using them can be judged
pub assume_specification[ Yaml::is_null ](v: &Yaml) -> (r: bool) ensures r == (*v is Null);
pub assume_specification[ Yaml::is_mapping ](v: &Yaml) -> (r: bool) ensures r == (*v is Mapping);
pub assume_specification[ Yaml::is_sequence ](v: &Yaml) -> (r: bool) ensures r == (*v is Sequence);
pub assume_specification[ Yaml::is_string ](v: &Yaml) -> (r: bool) ensures r == (*v is String);
pub assume_specification[ Yaml::is_bool ](v: &Yaml) -> (r: bool) ensures r == (*v is Bool);
pub assume_specification[ Yaml::is_number ](v: &Yaml) -> (r: bool) ensures r == (*v is Number);

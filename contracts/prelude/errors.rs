// ---- prelude/errors.rs: the crate's Error type and constructor helpers are opaque (N2): only Ok/Err matters
#[verifier::external_body]
pub struct Error { inner: () }

impl Error {
    #[verifier::external_body] pub fn new(_kind: error::Kind) -> Error { Error { inner: () } }
    // `with` attaches the source (a message text, another error): what was attached is remembered (ghost: err_with)
    #[verifier::external_body] pub fn with<S>(self, source: S) -> (r: Error) ensures err_with::<S>(r) == Some(source) { self }
}
pub uninterp spec fn err_with<S>(e: Error) -> Option<S>;

pub mod error {
    use super::*;
    use vstd::prelude::*;
    verus! {
    pub enum Kind { Parse, Rule, Token, Validation }
    #[verifier::external_body] pub fn parse_invalid_expr<E>(_e: E) -> Error { Error { inner: () } }
    #[verifier::external_body] pub fn parse_invalid_ident<E>(_e: E) -> Error { Error { inner: () } }
    #[verifier::external_body] pub fn parse_invalid_token<E>(_e: E) -> Error { Error { inner: () } }
    #[verifier::external_body] pub fn parse_led_following<E>(_e: E) -> Error { Error { inner: () } }
    #[verifier::external_body] pub fn parse_led_preceding<E>(_e: E) -> Error { Error { inner: () } }
    #[verifier::external_body] pub fn rule_invalid<E>(_e: E) -> Error { Error { inner: () } }
    #[verifier::external_body] pub fn token_invalid_char<E>(_e: E) -> Error { Error { inner: () } }
    #[verifier::external_body] pub fn token_invalid_num<E>(_e: E) -> Error { Error { inner: () } }
    }
}

// ---- prelude/stdspecs.rs: trusted specifications of std functions the extracted code calls.
// Meaning is carried by uninterpreted spec functions; nothing here is proved.

pub assume_specification<T: ?Sized, A: std::alloc::Allocator>[ <Box<T, A> as AsRef<T>>::as_ref ](b: &Box<T, A>) -> (r: &T)
    ensures r == &**b;

pub open spec fn cow_view(c: Cow<'_, str>) -> Seq<char> { c@ }
// numbers <-> text (uninterpreted: "what std's FromStr / Display do")
pub uninterp spec fn parse_i64(s: Seq<char>) -> Option<i64>;
pub uninterp spec fn parse_f64(s: Seq<char>) -> Option<f64>;
pub uninterp spec fn parse_usize(s: Seq<char>) -> Option<usize>;
pub uninterp spec fn i64_to_string(i: i64) -> Seq<char>;
pub uninterp spec fn u64_to_string(i: u64) -> Seq<char>;
pub uninterp spec fn f64_to_string(i: f64) -> Seq<char>;
pub open spec fn bool_to_string(b: bool) -> Seq<char> { if b { seq!['t','r','u','e'] } else { seq!['f','a','l','s','e'] } }

#[verifier::external_type_specification]
#[verifier::external_body]
pub struct ExParseIntError(std::num::ParseIntError);
#[verifier::external_type_specification]
#[verifier::external_body]
pub struct ExParseFloatError(std::num::ParseFloatError);

#[verifier::external_trait_specification]
pub trait ExFromStr: Sized {
    type ExternalTraitSpecificationFor: std::str::FromStr;
    type Err;
}

pub uninterp spec fn parse_ensures<F: std::str::FromStr>(s: Seq<char>, r: std::result::Result<F, F::Err>) -> bool;
pub assume_specification<F: std::str::FromStr>[ str::parse::<F> ](s: &str) -> (r: std::result::Result<F, F::Err>)
    ensures parse_ensures::<F>(s@, r);

pub broadcast axiom fn axiom_parse_i64(s: Seq<char>, r: std::result::Result<i64, std::num::ParseIntError>)
    requires #[trigger] parse_ensures::<i64>(s, r),
    ensures (r is Ok) == (parse_i64(s) is Some), r is Ok ==> r->Ok_0 == parse_i64(s)->Some_0;
pub broadcast axiom fn axiom_parse_usize(s: Seq<char>, r: std::result::Result<usize, std::num::ParseIntError>)
    requires #[trigger] parse_ensures::<usize>(s, r),
    ensures (r is Ok) == (parse_usize(s) is Some), r is Ok ==> r->Ok_0 == parse_usize(s)->Some_0;
pub broadcast axiom fn axiom_parse_f64(s: Seq<char>, r: std::result::Result<f64, std::num::ParseFloatError>)
    requires #[trigger] parse_ensures::<f64>(s, r),
    ensures (r is Ok) == (parse_f64(s) is Some), r is Ok ==> r->Ok_0 == parse_f64(s)->Some_0;

// floats: uninterpreted in Verus (bit-precise facts come from the Kani slices)
pub uninterp spec fn f64_round(x: f64) -> f64;
pub uninterp spec fn f64_as_i64(x: f64) -> i64;   // saturating `as`
pub uninterp spec fn i64_as_f64(x: i64) -> f64;
pub uninterp spec fn u64_as_f64(x: u64) -> f64;
pub uninterp spec fn f64_eq(x: f64, y: f64) -> bool;
pub uninterp spec fn f64_lt(x: f64, y: f64) -> bool;
pub uninterp spec fn f64_le(x: f64, y: f64) -> bool;
pub uninterp spec fn f64_gt(x: f64, y: f64) -> bool;
pub uninterp spec fn f64_ge(x: f64, y: f64) -> bool;

pub assume_specification[ f64::round ](x: f64) -> (r: f64)
    ensures r == f64_round(x);

// IEEE comparisons are deterministic functions of their operands
pub broadcast axiom fn axiom_f64_eq(x: f64, y: f64, o: bool)
    requires #[trigger] eq_ensures::<f64>(x, y, o), ensures o == f64_eq(x, y);
pub broadcast axiom fn axiom_f64_lt(x: f64, y: f64, o: bool)
    requires #[trigger] lt_ensures::<f64>(x, y, o), ensures o == f64_lt(x, y);
pub broadcast axiom fn axiom_f64_le(x: f64, y: f64, o: bool)
    requires #[trigger] le_ensures::<f64>(x, y, o), ensures o == f64_le(x, y);
pub broadcast axiom fn axiom_f64_gt(x: f64, y: f64, o: bool)
    requires #[trigger] gt_ensures::<f64>(x, y, o), ensures o == f64_gt(x, y);
pub broadcast axiom fn axiom_f64_ge(x: f64, y: f64, o: bool)
    requires #[trigger] ge_ensures::<f64>(x, y, o), ensures o == f64_ge(x, y);

// the empty string is not a number
pub broadcast axiom fn axiom_parse_empty_i64(s: Seq<char>)
    requires s.len() == 0, ensures #[trigger] parse_i64(s) is None;
pub broadcast axiom fn axiom_parse_empty_f64(s: Seq<char>)
    requires s.len() == 0, ensures #[trigger] parse_f64(s) is None;
pub broadcast axiom fn axiom_parse_empty_usize(s: Seq<char>)
    requires s.len() == 0, ensures #[trigger] parse_usize(s) is None;

pub broadcast group group_std_axioms {
    axiom_parse_empty_i64, axiom_parse_empty_f64, axiom_parse_empty_usize,
    axiom_parse_i64, axiom_parse_usize, axiom_parse_f64,
    axiom_f64_eq, axiom_f64_lt, axiom_f64_le, axiom_f64_gt, axiom_f64_ge,
}

// `f64::MAX as i64` / `as u64`: float->int `as` saturates (Rust reference), so these are the integer maxima.
pub fn f64_max_as_i64() -> (r: i64) ensures r == i64::MAX { i64::MAX }
pub fn f64_max_as_u64() -> (r: u64) ensures r == u64::MAX { u64::MAX }

pub assume_specification<T>[ std::mem::replace::<T> ](dest: &mut T, src: T) -> (r: T)
    ensures *final(dest) == src, r == *old(dest);

// `s.chars().nth(0)` (Chars::nth is a provided trait method: expression hole)
#[verifier::external_body]
pub fn str_first_char(s: &str) -> (r: Option<char>)
    ensures r == (if s@.len() > 0 { Some(s@[0]) } else { None::<char> }),
{
    s.chars().nth(0)
}

// ---- strings: byte-level model.  `s@` is Seq<char>; std compares and searches UTF-8 bytes.
pub open spec fn bytes(s: Seq<char>) -> Seq<u8> { vstd::utf8::encode_utf8(s) }
// a `str` fits in memory: its byte length is at most isize::MAX (Rust allocation limit)
pub broadcast axiom fn axiom_str_len_fits(s: &str)
    ensures #[trigger] vstd::utf8::encode_utf8(s@).len() <= isize::MAX;
pub open spec fn is_sub_at(n: Seq<u8>, h: Seq<u8>, k: int) -> bool {
    0 <= k && k + n.len() <= h.len() && h.subrange(k, k + n.len()) == n
}
pub open spec fn b_contains(h: Seq<u8>, n: Seq<u8>) -> bool { exists|k: int| is_sub_at(n, h, k) }
pub open spec fn b_starts_with(h: Seq<u8>, n: Seq<u8>) -> bool { is_sub_at(n, h, 0) }
pub open spec fn b_ends_with(h: Seq<u8>, n: Seq<u8>) -> bool { is_sub_at(n, h, h.len() - n.len()) }

#[verifier::external_trait_specification]
pub trait ExPattern: Sized {
    type ExternalTraitSpecificationFor: std::str::pattern::Pattern;
}
// what a pattern value searches for, as bytes (defined by axiom for the pattern types the code uses)
pub uninterp spec fn pattern_bytes<P>(p: P) -> Seq<u8>;
pub broadcast axiom fn axiom_pattern_bytes_string(p: &String)
    ensures #[trigger] pattern_bytes::<&String>(p) == bytes(p@);
pub broadcast axiom fn axiom_pattern_bytes_str(p: &str)
    ensures #[trigger] pattern_bytes::<&str>(p) == bytes(p@);
pub broadcast axiom fn axiom_pattern_bytes_char(p: char)
    ensures #[trigger] pattern_bytes::<char>(p) == bytes(seq![p]);

pub assume_specification<P: std::str::pattern::Pattern>[ str::contains::<P> ](s: &str, pat: P) -> (r: bool)
    ensures r == b_contains(bytes(s@), pattern_bytes(pat));
pub assume_specification<P: std::str::pattern::Pattern>[ str::starts_with::<P> ](s: &str, pat: P) -> (r: bool)
    ensures r == b_starts_with(bytes(s@), pattern_bytes(pat));

#[verifier::external_trait_specification]
pub trait ExSearcher<'a> {
    type ExternalTraitSpecificationFor: std::str::pattern::Searcher<'a>;
}
#[verifier::external_trait_specification]
pub trait ExReverseSearcher<'a>: std::str::pattern::Searcher<'a> {
    type ExternalTraitSpecificationFor: std::str::pattern::ReverseSearcher<'a>;
}
pub assume_specification<P: std::str::pattern::Pattern>[ str::ends_with::<P> ](s: &str, pat: P) -> (r: bool)
    where for<'a> P::Searcher<'a>: std::str::pattern::ReverseSearcher<'a>
    ensures r == b_ends_with(bytes(s@), pattern_bytes(pat));

// String's Hash/Eq agree with its value (vstd lacks this instance): HashMap<String, _> behaves as a map
pub broadcast axiom fn axiom_string_obeys_key_model()
    ensures #[trigger] obeys_key_model::<String>();

// Cow<str> derefs to the text it holds.  Verus cannot attach a postcondition to Cow's Deref impl
// (early-bound impl lifetime), so auto-deref sites are routed through this explicit deref (expression hole).
#[verifier::external_body]
pub fn cow_str<'b, 'a>(c: &'b Cow<'a, str>) -> (r: &'b str)
    ensures r@ == c@,
{
    &**c
}


// Display-based to_string: deterministic text of a scalar
pub broadcast axiom fn axiom_to_string_bool(x: &bool, r: String)
    requires #[trigger] vstd::string::to_string_from_display_ensures::<bool>(x, r), ensures r@ == bool_to_string(*x);
pub broadcast axiom fn axiom_to_string_i64(x: &i64, r: String)
    requires #[trigger] vstd::string::to_string_from_display_ensures::<i64>(x, r), ensures r@ == i64_to_string(*x);
pub broadcast axiom fn axiom_to_string_u64(x: &u64, r: String)
    requires #[trigger] vstd::string::to_string_from_display_ensures::<u64>(x, r), ensures r@ == u64_to_string(*x);
pub broadcast axiom fn axiom_to_string_f64(x: &f64, r: String)
    requires #[trigger] vstd::string::to_string_from_display_ensures::<f64>(x, r), ensures r@ == f64_to_string(*x);
pub broadcast axiom fn axiom_to_string_cow<'a>(x: &Cow<'a, str>, r: String)
    requires #[trigger] vstd::string::to_string_from_display_ensures::<Cow<'a, str>>(x, r), ensures r@ == x@;
pub broadcast group group_to_string {
    axiom_to_string_bool, axiom_to_string_i64, axiom_to_string_u64, axiom_to_string_f64, axiom_to_string_cow,
}

// numeric `as` casts involving f64 (Verus leaves them unspecified): explicit cast functions (expression holes).
// Rust semantics: int -> float rounds to nearest; float -> int truncates toward zero, saturates, NaN -> 0.
#[verifier::external_body]
pub fn cast_i64_f64(x: i64) -> (r: f64) ensures r == i64_as_f64(x) { x as f64 }
#[verifier::external_body]
pub fn cast_u64_f64(x: u64) -> (r: f64) ensures r == u64_as_f64(x) { x as f64 }
#[verifier::external_body]
pub fn cast_f64_i64(x: f64) -> (r: i64) ensures r == f64_as_i64(x) { x as i64 }

// chars
pub uninterp spec fn char_is_numeric(c: char) -> bool;
pub uninterp spec fn char_is_alphanumeric(c: char) -> bool;
pub assume_specification[ char::is_numeric ](c: char) -> (r: bool) ensures r == char_is_numeric(c);
pub assume_specification[ char::is_alphanumeric ](c: char) -> (r: bool) ensures r == char_is_alphanumeric(c);
// Unicode facts used: ASCII digits are numeric, ASCII letters and digits are alphanumeric
pub broadcast axiom fn axiom_ascii_numeric(c: char)
    ensures ('0' <= c <= '9') ==> #[trigger] char_is_numeric(c);
pub broadcast axiom fn axiom_ascii_alphanumeric(c: char)
    ensures ('0' <= c <= '9' || 'a' <= c <= 'z' || 'A' <= c <= 'Z') ==> #[trigger] char_is_alphanumeric(c);
// ASCII characters other than letters and digits are not alphanumeric (char::is_alphanumeric on ASCII)
pub broadcast axiom fn axiom_ascii_not_alphanumeric(c: char)
    ensures ((c as u32) < 128 && !('0' <= c <= '9' || 'a' <= c <= 'z' || 'A' <= c <= 'Z')) ==> !(#[trigger] char_is_alphanumeric(c));
pub broadcast group axiom_ascii_char_classes { axiom_ascii_numeric, axiom_ascii_alphanumeric }

// ASCII classification (core::char: exact, table-defined) - here so that a change which starts using them is judged by
// the contracts instead of stopping at "no specification"
pub assume_specification[ char::is_ascii_whitespace ](c: &char) -> (r: bool)
    ensures r == (*c == ' ' || *c == '\t' || *c == '\n' || *c == '\x0C' || *c == '\r');
pub assume_specification[ char::is_ascii_digit ](c: &char) -> (r: bool)
    ensures r == ('0' <= *c <= '9');
pub assume_specification[ char::is_ascii_alphabetic ](c: &char) -> (r: bool)
    ensures r == ('a' <= *c <= 'z' || 'A' <= *c <= 'Z');
pub assume_specification[ char::is_ascii_alphanumeric ](c: &char) -> (r: bool)
    ensures r == ('0' <= *c <= '9' || 'a' <= *c <= 'z' || 'A' <= *c <= 'Z');

#[verifier::external_body]
pub fn chars_to_string(v: Vec<char>) -> (r: String)
    ensures r@ == v@,
{
    v.into_iter().collect()
}

// string equality compares the text (`&String == &str` goes through the blanket reference impl, to which no
// postcondition can be attached from outside vstd: expression hole)
#[verifier::external_body]
pub fn str_eq(a: &String, b: &str) -> (r: bool)
    ensures r == (a@ == b@),
{
    a == b
}
pub open spec fn cow_str_view(c: &Cow<'_, str>) -> Seq<char> { c@ }

// ---- further std functions a change to the code may plausibly start using (so that the change is judged by the
// contracts instead of stopping at "not supported")
pub assume_specification[ String::len ](s: &String) -> (r: usize) ensures r == bytes(s@).len();
pub open spec fn strip_leading(s: Seq<char>, c: char) -> Seq<char>
    decreases s.len(),
{
    if s.len() > 0 && s[0] == c { strip_leading(s.skip(1), c) } else { s }
}
pub open spec fn strip_trailing(s: Seq<char>, c: char) -> Seq<char>
    decreases s.len(),
{
    if s.len() > 0 && s[s.len() - 1] == c { strip_trailing(s.take(s.len() - 1), c) } else { s }
}
pub uninterp spec fn trim_start_ens<P>(s: Seq<char>, p: P, r: Seq<char>) -> bool;
pub assume_specification<'a, P: std::str::pattern::Pattern>[ str::trim_start_matches::<P> ](s: &'a str, p: P) -> (r: &'a str)
    ensures trim_start_ens::<P>(s@, p, r@);
pub broadcast axiom fn axiom_trim_start_char(s: Seq<char>, c: char, r: Seq<char>)
    requires #[trigger] trim_start_ens::<char>(s, c, r), ensures r == strip_leading(s, c);
pub broadcast axiom fn axiom_to_string_string(x: &String, r: String)
    requires #[trigger] vstd::string::to_string_from_display_ensures::<String>(x, r), ensures r == *x;
// Vec::dedup removes consecutive repeats: never longer, every kept element was there
pub assume_specification<T: PartialEq, A: std::alloc::Allocator>[ Vec::<T, A>::dedup ](v: &mut Vec<T, A>)
    ensures
        final(v)@.len() <= old(v)@.len(),
        forall|i: int| 0 <= i < final(v)@.len() ==> old(v)@.contains(#[trigger] final(v)@[i]);

// <[T]>::contains (also reached through Vec's deref): whether some element equals x.  Equality of the element type is not
// modelled generically, so only the direction that needs no model is stated: an empty slice contains nothing.
pub assume_specification<T: PartialEq>[ <[T]>::contains ](s: &[T], x: &T) -> (r: bool)
    ensures s@.len() == 0 ==> !r;

// ---- prelude/pipespecs.rs: vocabulary of the pipeline unit (Rule::optimise, C01)
pub type Ids = Map<String, Expression>;

#[verifier::external_type_specification]
#[verifier::external_body]
pub struct ExYaml(Yaml);

// what each pass promises about its result (proved in the pass's own unit; opaque here: the sequencing proof below
// must not depend on what the promise is, only on which pass was applied to what)
pub uninterp spec fn coalesce_post(r: Expression, e: Expression, ids: Ids) -> bool;
pub uninterp spec fn shake0_post(r: Expression, e: Expression) -> bool;
pub uninterp spec fn shake1_post(r: Expression, e: Expression) -> bool;
pub uninterp spec fn rewrite_post(r: Expression, e: Expression) -> bool;
pub uninterp spec fn matrix_post(r: Expression, e: Expression) -> bool;

// shake = shake_1 after shake_0
pub open spec fn shake_post(r: Expression, e: Expression) -> bool {
    exists|m: Expression| #[trigger] shake0_post(m, e) && shake1_post(r, m)
}

pub enum Pass { Shake, Rewrite, Matrix }
pub open spec fn pass_post(p: Pass, r: Expression, e: Expression) -> bool {
    match p { Pass::Shake => shake_post(r, e), Pass::Rewrite => rewrite_post(r, e), Pass::Matrix => matrix_post(r, e) }
}
// a function value that is (at most) pass p
pub open spec fn is_pass<F: Fn(Expression) -> Expression>(f: F, p: Pass) -> bool {
    forall|x: Expression, y: Expression| call_ensures(f, (x,), y) ==> #[trigger] pass_post(p, y, x)
}

// an identifier is passed ENTRY BY ENTRY when it is a group (all()/of() count the entries of an identifier, so the
// group that was written has to stay), and as a whole otherwise
pub open spec fn id_post(p: Pass, r: Expression, e: Expression) -> bool {
    match e {
        Expression::BooleanGroup(s, xs) => r is BooleanGroup && r->BooleanGroup_0 == s && r->BooleanGroup_1@.len() == xs@.len()
            && forall|j: int| 0 <= j < xs@.len() ==> pass_post(p, #[trigger] r->BooleanGroup_1@[j], xs@[j]),
        _ => pass_post(p, r, e),
    }
}
// one stage over the whole identifier table: same names, every body passed - entry by entry (shake, matrix) or as a whole
// (rewrite, which keeps the shape of what it is given) - or, when the stage is off, untouched
pub open spec fn ids_stage(on: bool, p: Pass, m1: Ids, m0: Ids) -> bool {
    if on {
        m1.dom() == m0.dom() && forall|k: String| m0.contains_key(k) ==>
            (if p == Pass::Rewrite { pass_post(p, #[trigger] m1[k], m0[k]) } else { id_post(p, #[trigger] m1[k], m0[k]) })
    } else { m1 == m0 }
}
pub open spec fn expr_stage(on: bool, p: Pass, e1: Expression, e0: Expression) -> bool {
    if on { pass_post(p, e1, e0) } else { e1 == e0 }
}

// The pipeline as the property needs it: the condition goes through coalesce (against the FULL identifier table), shake,
// rewrite, matrix - each exactly once, in that order, when its switch is on; the identifier table is emptied exactly when
// the condition was coalesced (nothing can name an identifier any more), and otherwise every identifier goes through the
// same three passes, entry by entry
pub open spec fn pipe_expr(r: Expression, e0: Expression, ids0: Ids, o: Optimisations) -> bool {
    exists|e1: Expression, e2: Expression, e3: Expression|
        (if o.coalesce { coalesce_post(e1, e0, ids0) } else { e1 == e0 })
        && #[trigger] expr_stage(o.shake, Pass::Shake, e2, e1)
        && #[trigger] expr_stage(o.rewrite, Pass::Rewrite, e3, e2)
        && #[trigger] expr_stage(o.matrix, Pass::Matrix, r, e3)
}
pub open spec fn pipe_ids(r: Ids, ids0: Ids, o: Optimisations) -> bool {
    exists|m1: Ids, m2: Ids, m3: Ids|
        m1 == (if o.coalesce { Map::<String, Expression>::empty() } else { ids0 })
        && #[trigger] ids_stage(o.shake, Pass::Shake, m2, m1)
        && #[trigger] ids_stage(o.rewrite, Pass::Rewrite, m3, m2)
        && #[trigger] ids_stage(o.matrix, Pass::Matrix, r, m3)
}

// Vec::into_iter().map(f).collect::<Vec<_>>(): f applied to every element, in order (std contract)
#[verifier::external_body]
pub fn vec_map_collect<F: Fn(Expression) -> Expression>(v: Vec<Expression>, f: F) -> (r: Vec<Expression>)
    requires forall|j: int| 0 <= j < v@.len() ==> call_requires(f, (#[trigger] v@[j],)),
    ensures r@.len() == v@.len(), forall|j: int| 0 <= j < v@.len() ==> call_ensures(f, (v@[j],), #[trigger] r@[j]),
{ v.into_iter().map(f).collect() }

// HashMap::into_iter().map(f).collect::<HashMap<_, _>>(): f applied to every entry once; when f keeps the key, the
// result has the same keys and under each key the value f returned for that entry (std contract; no order involved)
#[verifier::external_body]
pub fn hm_map_collect<F: Fn((String, Expression)) -> (String, Expression)>(m: HashMap<String, Expression>, f: F) -> (r: HashMap<String, Expression>)
    requires forall|k: String| m@.contains_key(k) ==> call_requires(f, ((k, #[trigger] m@[k]),)),
    ensures
        (forall|i: (String, Expression), o: (String, Expression)| #[trigger] call_ensures(f, (i,), o) ==> o.0 == i.0) ==> (
            r@.dom() == m@.dom() && forall|k: String| m@.contains_key(k) ==> call_ensures(f, ((k, m@[k]),), (k, #[trigger] r@[k]))),
{ m.into_iter().map(f).collect() }

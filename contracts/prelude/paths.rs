// ---- prelude/paths.rs: trusted wrappers for str::split, Array::iter().nth, Object::get through a trait object
pub uninterp spec fn split_spec(s: Seq<char>, sep: char) -> Seq<Seq<char>>;
// str::split always yields at least one piece
pub broadcast axiom fn axiom_split_nonempty(s: Seq<char>, sep: char)
    ensures #[trigger] split_spec(s, sep).len() >= 1;

#[verifier::external_body]
pub struct SplitIter<'a>(std::str::Split<'a, char>);
impl<'a> SplitIter<'a> {
    pub uninterp spec fn rest(&self) -> Seq<Seq<char>>;
    #[verifier::external_body]
    pub fn nxt(&mut self) -> (r: Option<&'a str>)
        ensures
            match r {
                Some(v) => old(self).rest().len() > 0 && v@ == old(self).rest()[0]
                    && final(self).rest() == old(self).rest().skip(1),
                None => old(self).rest().len() == 0 && final(self).rest() == old(self).rest(),
            },
    {
        self.0.next()
    }
}
#[verifier::external_body]
pub fn split_iter<'a>(s: &'a str, sep: char) -> (r: SplitIter<'a>)
    ensures r.rest() == split_spec(s@, sep),
{
    SplitIter(s.split(sep))
}

// the text between '[' and ']' as an index: `piece.strip_suffix("]")?.parse::<usize>().ok()`
pub uninterp spec fn seg_index(piece: Seq<char>) -> Option<usize>;
#[verifier::external_body]
pub fn opt_parse_index(p: Option<&str>) -> (r: Option<usize>)
    ensures r == (match p { Some(s) => seg_index(s@), None => None::<usize> }),
{
    p.and_then(|i| i.strip_suffix("]")).and_then(|i| i.parse::<usize>().ok())
}

#[verifier::external_body]
pub fn array_nth<'a>(a: &'a dyn Array, i: usize) -> (r: Option<Value<'a>>)
    ensures optv(r) == (if i < arr_elems(arr_m(a)).len() { Some(arr_elems(arr_m(a))[i as int]) } else { None::<V> }),
{
    a.iter().nth(i)
}

#[verifier::external_body]
pub fn object_get<'a>(o: &'a dyn Object, key: &str) -> (r: Option<Value<'a>>)
    ensures optv(r) == obj_get(obj_m(o), key@),
{
    o.get(key)
}

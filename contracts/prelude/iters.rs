// ---- prelude/iters.rs: opaque iterator wrappers used by the N4 desugaring (TRUSTED).
// Each wrapper holds the *same* std/dependency iterator the real loop uses; `nxt` is its `next`.
// The specs say: the iterator yields the elements of a ghost sequence, in order, and nothing else.

// -- Array::iter() : Box<dyn Iterator<Item = Value<'_>> + '_>
#[verifier::external_body]
pub struct ArrayIter<'a>(Box<dyn Iterator<Item = Value<'a>> + 'a>);


impl<'a> ArrayIter<'a> {
    pub uninterp spec fn rest(&self) -> Seq<V>;
    // the same state as (all elements, position): used by the loop invariants (no `skip` reasoning needed)
    pub uninterp spec fn all(&self) -> Seq<V>;
    pub uninterp spec fn pos(&self) -> nat;

    #[verifier::external_body]
    pub fn nxt(&mut self) -> (r: Option<Value<'a>>)
        ensures
            final(self).all() == old(self).all(),
            old(self).pos() <= old(self).all().len() ==> final(self).pos() <= final(self).all().len(),
            match r {
                Some(v) => old(self).rest().len() > 0 && v@ == old(self).rest()[0]
                    && final(self).rest() == old(self).rest().skip(1)
                    && old(self).pos() < old(self).all().len() && v@ == old(self).all()[old(self).pos() as int]
                    && final(self).pos() == old(self).pos() + 1,
                None => old(self).rest().len() == 0 && final(self).rest() == old(self).rest()
                    && old(self).pos() >= old(self).all().len() && final(self).pos() == old(self).pos(),
            },
    {
        self.0.next()
    }
}

#[verifier::external_body]
pub fn array_iter<'a>(a: &'a dyn Array) -> (r: ArrayIter<'a>)
    ensures r.rest() == arr_elems(arr_m(a)), r.all() == arr_elems(arr_m(a)), r.pos() == 0,
{
    ArrayIter(a.iter())
}

// -- slice.iter().enumerate()
#[verifier::external_body]
#[verifier::reject_recursive_types(T)]
pub struct EnumIter<'a, T>(std::iter::Enumerate<std::slice::Iter<'a, T>>);

impl<'a, T> EnumIter<'a, T> {
    pub uninterp spec fn v(&self) -> Seq<T>;
    pub uninterp spec fn i(&self) -> int;

    #[verifier::external_body]
    pub fn nxt(&mut self) -> (r: Option<(usize, &'a T)>)
        ensures
            final(self).v() == old(self).v(),
            match r {
                Some(p) => old(self).i() < old(self).v().len() && p.0 == old(self).i() && *p.1 == old(self).v()[old(self).i()]
                    && final(self).i() == old(self).i() + 1,
                None => old(self).i() >= old(self).v().len() && final(self).i() == old(self).i(),
            },
    {
        self.0.next()
    }
}

#[verifier::external_body]
pub fn enum_iter<'a, T>(v: &'a Vec<T>) -> (r: EnumIter<'a, T>)
    ensures r.v() == v@, r.i() == 0,
{
    EnumIter(v.iter().enumerate())
}

// -- RegexSet::matches(hay).iter() : indices of the member patterns that match, ascending
#[verifier::external_body]
pub struct SetMatchIter(regex::SetMatchesIntoIter);

pub uninterp spec fn regex_is_match(r: &Regex, hay: Seq<char>) -> bool;
pub uninterp spec fn regexset_len(s: &RegexSet) -> nat;
pub uninterp spec fn regexset_member_match(s: &RegexSet, i: int, hay: Seq<char>) -> bool;
// the ascending list of matching member indices
pub uninterp spec fn regexset_hits(s: &RegexSet, hay: Seq<char>) -> Seq<usize>;

impl SetMatchIter {
    pub uninterp spec fn rest(&self) -> Seq<usize>;

    #[verifier::external_body]
    pub fn nxt(&mut self) -> (r: Option<usize>)
        ensures
            match r {
                Some(v) => old(self).rest().len() > 0 && v == old(self).rest()[0]
                    && final(self).rest() == old(self).rest().skip(1),
                None => old(self).rest().len() == 0 && final(self).rest() == old(self).rest(),
            },
    {
        self.0.next()
    }
}

#[verifier::external_body]
pub fn regexset_matches_iter(s: &RegexSet, hay: &str) -> (r: SetMatchIter)
    ensures r.rest() == regexset_hits(s, hay@),
{
    SetMatchIter(s.matches(hay).into_iter())
}

// -- RegexSet::matches(hay) as a value (regex-1.x documentation): `len()` is the number of regexes in the SET (not the number
// that matched), `matched_any()` says whether at least one matched, `matched(i)` whether member i did.  The loops of the real
// code go through regexset_matches_iter above; these are here so that a change which starts using the SetMatches value
// directly is judged by the contracts instead of stopping at "no specification".
#[verifier::external_type_specification]
#[verifier::external_body]
pub struct ExSetMatches(regex::SetMatches);
pub uninterp spec fn sm_hits(m: &regex::SetMatches) -> Seq<usize>;
pub uninterp spec fn sm_len(m: &regex::SetMatches) -> nat;
pub assume_specification[ RegexSet::matches ](s: &RegexSet, hay: &str) -> (r: regex::SetMatches)
    ensures sm_hits(&r) == regexset_hits(s, hay@), sm_len(&r) == regexset_patterns(s).len();
pub assume_specification[ regex::SetMatches::len ](m: &regex::SetMatches) -> (r: usize)
    ensures r == sm_len(m);
pub assume_specification[ regex::SetMatches::matched_any ](m: &regex::SetMatches) -> (r: bool)
    ensures r == (sm_hits(m).len() > 0);
pub assume_specification[ regex::SetMatches::matched ](m: &regex::SetMatches, i: usize) -> (r: bool)
    ensures r == sm_hits(m).contains(i);

pub assume_specification[ Regex::is_match ](r: &Regex, hay: &str) -> (o: bool)
    ensures o == regex_is_match(r, hay@);
pub uninterp spec fn regexset_is_match(s: &RegexSet, hay: Seq<char>) -> bool;
pub assume_specification[ RegexSet::is_match ](s: &RegexSet, hay: &str) -> (o: bool)
    ensures o == regexset_is_match(s, hay@);
pub uninterp spec fn regexset_patterns(s: &RegexSet) -> Seq<String>;
pub assume_specification<'a>[ RegexSet::patterns ](s: &'a RegexSet) -> (o: &'a [String])
    ensures o@ == regexset_patterns(s);

// -- AhoCorasick::find_overlapping_iter(hay): every occurrence (pattern, start, end) of a needle
#[verifier::external_type_specification]
#[verifier::external_body]
pub struct ExAcMatch(aho_corasick::Match);
#[verifier::external_type_specification]
#[verifier::external_body]
pub struct ExPatternID(aho_corasick::PatternID);

pub uninterp spec fn pid(p: aho_corasick::PatternID) -> nat;
pub uninterp spec fn ac_pattern(m: aho_corasick::Match) -> aho_corasick::PatternID;
pub uninterp spec fn ac_start(m: aho_corasick::Match) -> nat;
pub uninterp spec fn ac_end(m: aho_corasick::Match) -> nat;

pub assume_specification[ aho_corasick::Match::pattern ](m: &aho_corasick::Match) -> (r: aho_corasick::PatternID)
    ensures r == ac_pattern(*m);
pub assume_specification[ aho_corasick::Match::start ](m: &aho_corasick::Match) -> (r: usize)
    ensures r == ac_start(*m);
pub assume_specification[ aho_corasick::Match::end ](m: &aho_corasick::Match) -> (r: usize)
    ensures r == ac_end(*m);
pub assume_specification[ aho_corasick::PatternID::as_u64 ](p: &aho_corasick::PatternID) -> (r: u64)
    ensures r == pid(*p);

#[verifier::external_body]
pub struct AcIter<'a, 'h>(aho_corasick::FindOverlappingIter<'a, 'h>);

pub uninterp spec fn ac_hits(a: &AhoCorasick, hay: Seq<char>) -> Seq<aho_corasick::Match>;

impl<'a, 'h> AcIter<'a, 'h> {
    pub uninterp spec fn rest(&self) -> Seq<aho_corasick::Match>;

    #[verifier::external_body]
    pub fn nxt(&mut self) -> (r: Option<aho_corasick::Match>)
        ensures
            match r {
                Some(v) => old(self).rest().len() > 0 && v == old(self).rest()[0]
                    && final(self).rest() == old(self).rest().skip(1),
                None => old(self).rest().len() == 0 && final(self).rest() == old(self).rest(),
            },
    {
        self.0.next()
    }
}

#[verifier::external_body]
pub fn ac_iter<'a, 'h>(a: &'a AhoCorasick, hay: &'h str) -> (r: AcIter<'a, 'h>)
    ensures r.rest() == ac_hits(a, hay@),
{
    AcIter(a.find_overlapping_iter(hay))
}

// -- Object::find through a trait object (Verus rejects the Value <-> Object cycle, so the trait
//    methods cannot be declared to it): the call is routed through this wrapper (expression hole).

#[verifier::external_body]
pub fn object_find<'a>(o: &'a dyn Object, key: &str) -> (r: Option<Value<'a>>)
    ensures optv(r) == obj_find(obj_m(o), key@),
{
    Object::find(o, key)
}

// derived Clone of Value (external_derive): a clone denotes the same value
pub assume_specification<'a>[ <Value<'a> as Clone>::clone ](v: &Value<'a>) -> (r: Value<'a>)
    ensures r@ == v@;

// AhoCorasick::find_iter (leftmost, NON-overlapping): yields only some of the occurrences.  No completeness
// is assumed for it, so code that switches to it cannot discharge "every occurrence is seen".
pub uninterp spec fn ac_hits_nonoverlapping(a: &AhoCorasick, hay: Seq<char>) -> Seq<aho_corasick::Match>;
#[verifier::external_body]
pub struct AcFindIter<'a, 'h>(aho_corasick::FindIter<'a, 'h>);
impl<'a, 'h> AcFindIter<'a, 'h> {
    pub uninterp spec fn rest(&self) -> Seq<aho_corasick::Match>;
    #[verifier::external_body]
    pub fn nxt(&mut self) -> (r: Option<aho_corasick::Match>)
        ensures
            match r {
                Some(v) => old(self).rest().len() > 0 && v == old(self).rest()[0]
                    && final(self).rest() == old(self).rest().skip(1),
                None => old(self).rest().len() == 0 && final(self).rest() == old(self).rest(),
            },
    {
        self.0.next()
    }
}
#[verifier::external_body]
pub fn ac_find_iter<'a, 'h>(a: &'a AhoCorasick, hay: &'h str) -> (r: AcFindIter<'a, 'h>)
    ensures r.rest() == ac_hits_nonoverlapping(a, hay@),
{
    AcFindIter(a.find_iter(hay))
}

// slices indexed by PatternID (aho-corasick implements Index<PatternID> for [T]; the orphan rule keeps Verus from
// attaching a precondition to that foreign impl, so the index expression is routed through this wrapper: expression hole)
#[verifier::external_body]
pub fn pat_index<'a, T>(s: &'a [T], p: aho_corasick::PatternID) -> (r: &'a T)
    requires pid(p) < s@.len(),
    ensures *r == s@[pid(p) as int],
{
    &s[p]
}

// a RegexSet reports each matching member index once, and only indices of its patterns
pub broadcast axiom fn axiom_regexset_hits_bound(s: &RegexSet, v: Seq<char>)
    ensures #[trigger] regexset_hits(s, v).len() <= regexset_patterns(s).len(), regexset_patterns(s).len() <= usize::MAX;

// derived PartialEq of the field-less SolverResult (external_derive): structural
pub assume_specification[ <SolverResult as PartialEq>::eq ](a: &SolverResult, b: &SolverResult) -> (r: bool)
    ensures r == (*a == *b);

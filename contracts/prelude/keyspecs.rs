// ---- prelude/keyspecs.rs: what the key handling of parse_mapping calls (unit keys)
// serde_yaml::Value is matched on by the real code: its variants are public API (serde_yaml 0.9), mirrored here
#[verifier::external_type_specification]
#[verifier::external_body]
pub struct ExYamlNumber(serde_yaml::Number);
#[verifier::external_type_specification]
#[verifier::external_body]
pub struct ExYamlMapping(serde_yaml::Mapping);
#[verifier::external_type_specification]
#[verifier::external_body]
pub struct ExYamlTagged(serde_yaml::value::TaggedValue);
#[verifier::external_type_specification]
pub struct ExYaml(serde_yaml::Value);

// the tokeniser and the condition parser are verified in unit front; here only their signatures matter (the key text is
// tokenised, identifier runs are re-joined, the result is parsed): what they return is left uninterpreted
#[verifier::external_body]
pub fn tokenise_str(s: &String) -> (r: crate::Result<Vec<Token>>) { unimplemented!() }
#[verifier::external_body]
pub fn parse(tokens: &Vec<Token>) -> (r: crate::Result<Expression>) { unimplemented!() }
// Vec<String>::join(" ") (slice::join: Join trait, outside Verus): the text is irrelevant to what is proved here
#[verifier::external_body]
pub fn join_space(v: &Vec<String>) -> (r: String) { v.join(" ") }

// derived Clone impls: a clone denotes the same value
pub assume_specification[ <ModSym as Clone>::clone ](s: &ModSym) -> (r: ModSym)
    ensures r == *s;

// ---- prelude/head.rs: crate attributes and imports shared by every unit (trusted glue)
#![feature(allocator_api)]
#![feature(pattern)]
#![allow(unused, dead_code, unused_imports, non_snake_case, unreachable_code, unused_mut)]
#![allow(unpredictable_function_pointer_comparisons, mismatched_lifetime_syntaxes)]
use std::borrow::Cow;
use std::collections::{HashMap, HashSet};
use std::iter::Peekable;
use std::str::Chars;
use vstd::prelude::*;
use vstd::std_specs::cmp::*;
use vstd::std_specs::hash::*;

// N1: tracing's `debug!` replaced by a no-op (logging has no effect on results).
macro_rules! debug { ($($t:tt)*) => {} }
// N1b: `format!` (used only to build error-message text, which is opaque to every property) replaced by an
// empty String; Debug/Display formatting of the crate's types is left unverified.
macro_rules! format { ($($t:tt)*) => { String::new() } }

// ---- prelude/peekable.rs: Peekable<I> as a ghost sequence of remaining items (TRUSTED std specs)
#[verifier::reject_recursive_types(I)]
#[verifier::external_type_specification]
#[verifier::external_body]
pub struct ExPeekable<I: Iterator>(Peekable<I>);

pub uninterp spec fn pk_rem<I: Iterator>(it: Peekable<I>) -> Seq<I::Item>;
// the same state as (fixed underlying sequence, position): pk_rem(it) is pk_base(it) from pk_pos(it) on
pub uninterp spec fn pk_base<I: Iterator>(it: Peekable<I>) -> Seq<I::Item>;
pub uninterp spec fn pk_pos<I: Iterator>(it: Peekable<I>) -> nat;
pub open spec fn pk_wf<I: Iterator>(it: Peekable<I>) -> bool {
    pk_pos(it) <= pk_base(it).len() && pk_rem(it).len() == pk_base(it).len() - pk_pos(it)
        && forall|i: int| 0 <= i < pk_rem(it).len() ==> #[trigger] pk_rem(it)[i] == pk_base(it)[pk_pos(it) + i]
}

pub assume_specification<I: Iterator>[ Peekable::<I>::peek ](it: &mut Peekable<I>) -> (r: Option<&I::Item>)
    ensures
        pk_rem(*final(it)) == pk_rem(*old(it)),
        pk_base(*final(it)) == pk_base(*old(it)), pk_pos(*final(it)) == pk_pos(*old(it)), pk_wf(*old(it)) ==> pk_wf(*final(it)),
        match r {
            Some(x) => pk_rem(*old(it)).len() > 0 && *x == pk_rem(*old(it))[0],
            None => pk_rem(*old(it)).len() == 0,
        };

pub assume_specification<I: Iterator>[ <Peekable<I> as Iterator>::next ](it: &mut Peekable<I>) -> (r: Option<I::Item>)
    ensures
        pk_base(*final(it)) == pk_base(*old(it)), pk_wf(*old(it)) ==> pk_wf(*final(it)),
        match r {
            Some(x) => pk_rem(*old(it)).len() > 0 && x == pk_rem(*old(it))[0] && pk_rem(*final(it)) == pk_rem(*old(it)).skip(1)
                && pk_pos(*final(it)) == pk_pos(*old(it)) + 1,
            None => pk_rem(*old(it)).len() == 0 && pk_rem(*final(it)) == pk_rem(*old(it)) && pk_pos(*final(it)) == pk_pos(*old(it)),
        };

pub assume_specification<I: Iterator>[ <Peekable<I> as Iterator>::nth ](it: &mut Peekable<I>, n: usize) -> (r: Option<I::Item>)
    ensures
        n < pk_rem(*old(it)).len() ==> r == Some(pk_rem(*old(it))[n as int]) && pk_rem(*final(it)) == pk_rem(*old(it)).skip(n + 1),
        n >= pk_rem(*old(it)).len() ==> r is None && pk_rem(*final(it)).len() == 0;

pub assume_specification<I: Iterator + Clone>[ <Peekable<I> as Clone>::clone ](it: &Peekable<I>) -> (r: Peekable<I>)
    where I::Item: Clone
    ensures pk_rem(r) == pk_rem(*it);

// `s.chars().peekable()` and `tokens.iter().peekable()` (peekable is a provided trait method: expression holes)
#[verifier::external_body]
pub fn chars_peekable<'a>(s: &'a str) -> (r: Peekable<Chars<'a>>)
    ensures pk_rem(r) == s@,
{
    s.chars().peekable()
}

#[verifier::external_body]
pub fn slice_peekable<'a, T>(s: &'a [T]) -> (r: Peekable<std::slice::Iter<'a, T>>)
    ensures pk_rem(r).len() == s@.len(), forall|i: int| 0 <= i < s@.len() ==> *(#[trigger] pk_rem(r)[i]) == s@[i],
        pk_base(r) == pk_rem(r), pk_pos(r) == 0, pk_wf(r),
{
    s.iter().peekable()
}

// -- str::chars() as an explicit iterator (N4 desugaring)
#[verifier::external_body]
pub struct CharsIter<'a>(Chars<'a>);

impl<'a> CharsIter<'a> {
    pub uninterp spec fn rest(&self) -> Seq<char>;

    #[verifier::external_body]
    pub fn nxt(&mut self) -> (r: Option<char>)
        ensures
            match r {
                Some(v) => old(self).rest().len() > 0 && v == old(self).rest()[0]
                    && final(self).rest() == old(self).rest().skip(1),
                None => old(self).rest().len() == 0 && final(self).rest() == old(self).rest(),
            },
    {
        self.0.next()
    }
}

#[verifier::external_body]
pub fn chars_iter<'a>(s: &'a str) -> (r: CharsIter<'a>)
    ensures r.rest() == s@,
{
    CharsIter(s.chars())
}

#[verifier::external_body]
pub fn collect_rest<'a, I: Iterator<Item = &'a Token>>(it: Peekable<I>) -> Vec<&'a Token> {
    it.collect::<Vec<&Token>>()
}

// derived Clone / PartialEq of Token (external_derive)
pub assume_specification[ <Token as Clone>::clone ](t: &Token) -> (r: Token)
    ensures r == *t;

// derived PartialEq of Token (external_derive): structural, except that a NaN float never equals itself
pub assume_specification[ <Token as PartialEq>::eq ](a: &Token, b: &Token) -> (r: bool)
    ensures (!(*a is Float) || !(*b is Float)) ==> r == (*a == *b);

// `&Token == &Token` goes through the blanket reference impl (no postcondition attachable): expression hole
#[verifier::external_body]
pub fn token_eq(a: &Token, b: &Token) -> (r: bool)
    ensures (!(*a is Float) || !(*b is Float)) ==> r == (*a == *b),
{
    a == b
}

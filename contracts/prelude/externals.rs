// ---- prelude/externals.rs: external types and traits (trusted declarations)
#[verifier::external_type_specification]
#[verifier::external_body]
pub struct ExRegex(Regex);
#[verifier::external_type_specification]
#[verifier::external_body]
pub struct ExRegexSet(RegexSet);
#[verifier::external_type_specification]
#[verifier::external_body]
pub struct ExAhoCorasick(AhoCorasick);

#[verifier::external_trait_specification]
pub trait ExArray {
    type ExternalTraitSpecificationFor: Array;
    fn len(&self) -> usize;
}
#[verifier::external_trait_specification]
pub trait ExObject {
    type ExternalTraitSpecificationFor: Object;
    fn len(&self) -> usize;
}

// ---- prelude/vecspecs.rs: Clone of Expression and Vec::extend (shared by the optimiser and matrix units)
pub assume_specification[ <Expression as Clone>::clone ](e: &Expression) -> (r: Expression)
    ensures r == *e;

pub uninterp spec fn into_seq<T, I: IntoIterator<Item = T>>(i: I) -> Seq<T>;
pub broadcast axiom fn axiom_into_seq_vec<T>(v: Vec<T>)
    ensures #[trigger] into_seq::<T, Vec<T>>(v) == v@;
pub assume_specification<T, A: std::alloc::Allocator, I: IntoIterator<Item = T>>[ <Vec<T, A> as Extend<T>>::extend::<I> ](v: &mut Vec<T, A>, other: I)
    ensures final(v)@ == old(v)@ + into_seq::<T, I>(other);


"""Which functions (under contract) carry which property.  Unit -> list of function names whose
every obligation must be discharged for the property to hold."""

SOLVER_CORE = ["solve_expression", "find", "match_all", "match_of", "lemma_tables_as_stated", "lemma_of3_single", "lemma_match_unfold", "lemma_ids_wf",
               "lemma_and3_skip", "lemma_and3_first", "lemma_and3_all_true", "lemma_and3_true_iff",
               "lemma_and2", "lemma_or2", "lemma_count_true_step", "lemma_count_true_mono", "lemma_count_true_bound"]

FRONT_PARSE = ["parse", "parse_expr", "parse_led", "parse_nud", "is_solvable"]
FRONT_LEX = ["tokenise", "consume_while", "match_ahead"]

# a unit verified under a different cfg: alias -> (template unit, extra verus arguments)
UNIT_ALIASES = {"identifier_ic": ("identifier", ["--cfg", 'feature="ignore_case"'])}

MATRIX_FNS = ["matrix", "lemma_cell_sem", "lemma_cmp_rekey", "lemma_cell_missing", "lemma_row_eval", "lemma_row_cells", "lemma_conj_true", "lemma_row_sem", "lemma_rows_eval", "lemma_matrix_defined", "lemma_matrix_sem", "lemma_or_true", "lemma_cell_wf", "lemma_row_wf", "lemma_matrix_wf", "lemma_row_srcs", "lemma_matrix_truth", "lemma_or_arm", "lemma_or_arm_ident", "lemma_or_arm_head", "lemma_or_plain", "lemma_and_arm", "lemma_be_arm", "lemma_negate_arm", "lemma_nested_arm", "lemma_nested_truth", "lemma_nested_exact", "lemma_nested_array_truth", "lemma_nested_array_exact", "lemma_or_free_head", "lemma_match_single", "lemma_match_group", "lemma_post_refl", "lemma_mx_empty", "lemma_mx_push_row", "lemma_mx_push_rest", "lemma_row_from_lookup", "lemma_row_single"]

FRAME_FNS = ["lemma_frame", "lemma_frame_group", "lemma_frame_match", "lemma_frame_leaf", "lemma_frame_cmp", "lemma_frame_row", "lemma_frame_rows", "lemma_frame_rows_all", "lemma_frame_rows_of", "lemma_frame_defined", "lemma_frame_elems", "lemma_agree_elem"]
REWRITE_FNS = ["rewrite_search", "rewrite", "lemma_rw_refl", "lemma_rw_wf"]
BATCH_FNS = ["batch", "seqtail", "shake_needles", "shake_patterns", "lemma_any_pat_step", "lemma_rs_pats", "single_pattern", "classify_member", "entry_tail", "mapping_tail", "bool_value", "number_value", "list_flags", "unmatched_key", "lemma_ac_one", "lemma_kinds_push", "lemma_no_merged_push", "lemma_rs_any", "lemma_pairs_aligned", "lemma_pairs_any", "lemma_single_quant", "lemma_ac_search", "lemma_ac_member", "lemma_ac_any", "lemma_single_kind", "lemma_exact_empty", "lemma_any_ctx_push", "lemma_any_regex_push", "lemma_any_group_push", "lemma_any_ident_take", "lemma_group_ok_push"]

PROPS = {
    "C15": {
        "units": {"identifier": ["into_identifier", "lemma_ignore_case_is_i_prefix"], "identifier_ic": ["into_identifier"]},
        "explanation": "into_identifier is extracted once and verified twice, with and without --cfg feature=\"ignore_case\" (the real cfg! macro): the default build is proved to equal classify_default (leading 'i' = insensitive, stripped), the feature build classify_ignore_case (always insensitive, nothing stripped); lemma: classify_ignore_case(s) == classify_default('i' + s). Everything downstream is the same code on the same Identifier.",
        "scans": [{"what": "feature ignore_case is read only in into_identifier", "pattern": r'feature\s*=\s*"ignore_case"', "allowed_files": ["identifier.rs"]}],
        "assumptions": ["downstream code never sees the feature: checked by the frame scan above"],
    },
    "C03": {
        "units": {"front": FRONT_PARSE + ["lemma_closed_parse", "lemma_closed_expr", "lemma_closed_loop", "lemma_closed_led", "lemma_closed_nud", "lemma_split", "lemma_sub_scanned"], "solver": ["solve_expression", "solve", "match_all", "match_of", "slow_aho", "search", "lemma_syntax_to_wf", "lemma_match_unfold", "lemma_ids_wf", "lemma_matrix_cells"], "matrix": MATRIX_FNS, "rewrite": REWRITE_FNS, "scan": ["ident_scan"]},
        "explanation": "every panic site of the extracted solver functions is discharged from wf(); the condition parser is proved to establish wf_syntax (operands of and/or/not are predicates), and lemma_syntax_to_wf bridges the two; matrix() is proved panic-free (char::from_u32(..).expect, the final expect, arithmetic) and to return a well-formed expression - in particular every Matrix cell only asks for column keys below the table width, which is what the solver's Matrix arm needs; the loader's identifier-existence scan is proved at token level and lifted to the parsed tree (lemma_closed_parse: an Identifier node only comes from a token the scan looks up); rewrite() / rewrite_search() are proved panic-free (the rebuilt regex may fail to build: the original is kept) and shape-preserving, hence wf-preserving",
        "assumptions": ["identifier existence is proved in two steps over shared definitions (spec/closed_defs.rs): the scan loop of the serde visitor accepts iff every identifier TOKEN outside a cast / not( field position names an entry (slice ident_scan), and lemma_closed_parse: for such a token sequence every Identifier node of p_parse(tokens) - to which the real parser is proved equal - names an entry (closed_in); what is not mechanised is only the gluing of the three facts inside the visitor function (it is a serde visitor: not under contract as a whole) and the textual identity of closed_in with the solver unit's closed",
                        "identifier bodies built by parse_mapping are assumed well formed (ids_wf)"],
    },
    "C04": {
        "units": {"front": FRONT_LEX + FRONT_PARSE, "identifier": ["into_identifier"], "batch": BATCH_FNS},
        "explanation": "termination (decreases on remaining chars/tokens) and panic-freedom of the tokeniser and the Pratt parser for inputs of any length; into_identifier cannot panic on any string; the sliced blocks of parse_mapping (value arms, list batching, wrapping) cannot panic: every expect() in them is discharged (a lone context entry exists when there is exactly one needle, ...), and a regex set that does not build is returned as an error",
        "assumptions": ["conditions shorter than 2^31 tokens (i32 parenthesis depth counter)", "AhoCorasickBuilder::build is assumed to succeed (its expect() stays in the code); serde_yaml's own parser and the Yaml walk of parse_mapping / the serde visitor are not under contract"],
    },
    "C05": {
        "units": {"front": ["binding_power", "match_ahead", "consume_while", "tokenise"] + FRONT_PARSE + ["lemma_or_binds_tighter_than_and", "lemma_left_associative", "lemma_not_single_operand", "lemma_parentheses", "lemma_lex_unfold", "lemma_lex_step", "lemma_run", "lemma_word_is_identifier", "lemma_leading_space", "lemma_keywordish_words", "lemma_keywords"]},
        "explanation": "the real parse/parse_expr/parse_led/parse_nud are proved to return, on every condition they accept, exactly p_parse(tokens): a grammar function that consults operators only through the binding powers (binding_power is proved equal to that table); the property's clauses are lemmas over p_parse for symbolic identifiers: or binds tighter than and on either side, equal operators associate to the left, not takes the single following operand (and not not a is a double negation), parentheses override and a parenthesised atom is the atom; the keyword look-ahead helper is proved to test exactly a prefix of the remaining text; the tokeniser is proved EQUAL to the lexing function lex for every string (Ok(tokens) exactly when lex gives those tokens, Err exactly when lex is undefined): a keyword is taken only at the start of a token and only with the character that must follow it ('and ', 'or ', 'not ', 'not(', 'all(', 'of(', 'int(', 'flt(', 'str(', 'string('), anything else starting with a letter or '#' is the longest run of identifier characters - so android / order / nothing / allow / offline lex to identifiers (lemma_keywordish_words, and lemma_word_is_identifier for every such word), while 'a and b' lexes to identifier, operator, identifier",
        "assumptions": ["redundant parentheses around arbitrary sub-expressions: proved for the stated instances, not by general induction", "extra white space BETWEEN tokens: leading white space is proved irrelevant at every position where a token may start (lemma_leading_space); a general statement about inserting spaces needs a notion of token boundary that is not formalised",
                        "numeric literals: str::parse::<i64/f64> is uninterpreted; ASCII non-letters/digits are assumed not alphanumeric (char::is_alphanumeric)"],
    },
    "C02": {
        "units": {"solver": SOLVER_CORE + ["search", "as_bool", "is_null", "as_str", "as_object", "to_string"], "batch": BATCH_FNS},
        "explanation": "solve_expression is proved equal to sem3, the denotational semantics written from the rule-language documentation (mapping=and3 in order, sequence=or3, missing field => Missing, only True matches); search is proved equal to search_rel per pattern kind; of the YAML -> expression translation, eight blocks of parse_mapping are under contract as verbatim slices: a boolean value and a number value on a key (incl. the int() / str() key modifiers), a single string value (numeric prefix -> the comparison it names, otherwise one search meaning the pattern), the classification of a list member, the list batching, the quantifier wrapping at the end of a list, the not() key modifier (entry_tail) and 'a mapping is the conjunction of its entries in written order' (mapping_tail)",
        "assumptions": ["parse_mapping outside the eight slices is not under contract: the Yaml walk, key tokenising/parsing (int()/flt()/str()/not()/all()/of() keys), null / nested-mapping values, boolean / number / null / mapping members of a list, parse_identifier (sequence of mappings -> or-group)"],
    },
    "C07": {
        "units": {"solver": ["search"], "identifier": ["into_identifier"], "batch": BATCH_FNS},
        "explanation": "search() equals the documented relation per kind over all strings (byte-level model of str); the Aho-Corasick arm is proved to accept exactly when some reported occurrence passes its start/end filter; the list-batching block of parse_mapping (src/parser.rs:1397-1566, verified as a slice: a function of its free variables) is proved to build searches that, taken together, match a string exactly when some member of the list matches it on its own - case-sensitive and case-insensitive needles in their own automata with context entry i naming needle i, a single case-sensitive needle as the plain std search, empty exact patterns kept out of the automata, regexes in their sets",
        "assumptions": ["the AhoCorasickBuilder and RegexSetBuilder chains stay real code (new / ascii_case_insensitive / kind / case_insensitive modelled call by call); assumed on the libraries: build() succeeds, the automaton reports (overlapping iteration) exactly the occurrences of its needles under its flag (ac_of), member i of a regex set accepts what the regex built from pattern i with the set's flag accepts (rs_of), a Regex remembers its pattern text; the iterator expression that collects the pattern texts is a hole (regex_texts)",
                        "batch slice: each regex member is assumed built from its own text with its own case flag (regex_from: what into_identifier does)",
                        "batch slice: the five input vectors are assumed to hold identifiers of their own kind (kinds_ok): the classification match directly above the slice, the Yaml walk and the single-string arm of parse_mapping are not under contract",
                        "UTF-8 encoding is injective (axiom)"],
    },
    "C10": {
        "units": {"paths": ["ObjectV::find", "ObjectVS::find"], "solver": ["solve_expression"]},
        "explanation": "the default Object::find body is proved equal to path_lookup (descend objects, name[i] = i-th array element, any missing/ill-shaped step => None) for keys of any length; Nested object/scalar arms proved in solve_expression",
        "assumptions": ["str::split / Array::iter().nth / Object::get wrappers (trusted specs)", "index text parsing (strip_suffix + parse::<usize>) uninterpreted", "sync-feature copy of find is textually identical (diffed by the check)", "Nested over an array: the default case ('some element satisfies the block') is verified; the all()-of-several-blocks and matrix-in-array forms are holes"],
    },
    "C01": {
        "units": {"optimiser": ["coalesce", "shake_0", "lemma_congruences", "lemma_nested_congruence", "lemma_nested_array_congruence", "lemma_match_coalesce",
                                 "lemma_congruences_all", "lemma_same_refl", "lemma_same_trans", "lemma_group_equiv", "lemma_group_single", "lemma_merge", "lemma_be_congr", "lemma_three",
                                 "lemma_sems_concat", "lemma_sems_defined", "lemma_has_ident_elem", "lemma_and3_concat", "lemma_or3_concat", "lemma_single", "lemma_and3_3", "lemma_or3_3", "lemma_match_group_same"],
                  "matrix": MATRIX_FNS, "rewrite": REWRITE_FNS, "batch": BATCH_FNS},
        "explanation": "coalesce is proved to preserve sem3 for every document (three-valued equality, so also under negation), to remove every identifier (so clearing the identifier table is sound) and never to hit its expect(); shake_0 (and/or flattening, group-of-one unwrapping) is proved to preserve sem3 for every identifier table and document, arm by arm, through flattening lemmas over and3/or3; matrix() (all 358 lines, both passes, every loop) is proved against a structural relation - every disjunct of an or-group becomes either a row whose cells are exactly its conjuncts, re-keyed to the column of their field, or stays as it is - and that relation is proved to imply that the rewritten or-group is TRUE for exactly the same documents (cell -> row -> rows -> matrix lemmas over the solver's own cache-fold semantics), with full three-valued equivalence wherever no or-group is rewritten; termination of matrix() and coalesce() is proved (decreases expression); rewrite() / rewrite_search() are proved panic-free and terminating and to return the same expression with some regex searches rebuilt (same field, cast flag, case flag and kind: rw_rel), which keeps well-formedness (lemma_rw_wf); of shake_1, the block that re-merges the plain searches of one (field, cast, case) key (slice shake_needles) is proved to add exactly one search that means 'some member matches' under the members' own case rule, and the block that rebuilds the regex searches of one key (slice shake_patterns) to add searches that together accept exactly what one of the patterns, compiled with the key's case flag, accepts - as one regex, as a set, or as separate regexes when the merged set does not build",
        "assumptions": ["shake_0: termination not proved; the Nested-over-block arm is a hole; all()/of() operands are assumed to be a group or a single identifier / search / matrix / field (groups_ok); double negation removal is known finding C01-KF1",
                        "matrix(): only truth-equivalence holds for a rewritten or-group (False/Missing may swap): the contract claims it where no rewritten or-group sits under a negation (neg_safe) - the rest is known finding C01-KF2; all()/of() heads directly under a nested key are outside the claim",
                        "matrix(): shake_1 (called on the operands of all()/of()) is not under contract: sh_post is assumed; HashMap::into_iter / sort_by / map-collect / values / String == String are expression holes with the std contract stated in prelude/mxspecs.rs; the u32 field counter is assumed not to overflow",
                        "rewrite_search: that a regex with its leading/trailing '.*' removed accepts the same strings is NOT proved (the regex language is uninterpreted; RegexSetBuilder's inputs are not modelled)",
                        "shake_1 is not under contract except for the shake_needles slice (HashMap iteration over tuple keys, seven sort_by closures, regex rebuilding: outside Verus)",
                        "Rule::optimise (the sequencing of the four passes) is not under contract"],
    },
    "C09": {
        "units": {"solver": ["solve_expression"]},
        "kani": [{"name": "c09", "module": "c09_table.rs", "slice_file": "solver.rs",
                  "slices": {"@TABLE@": "let res = match (x, *op, y) {"},
                  "harnesses": ["c09_table_sound", "c09_trichotomy", "c09_cast_facts"], "decode": "cmp"}],
        "explanation": "Verus: the comparison arm of solve_expression equals sem_cmp, whose integer relation is stated over the mathematical integers (no wrap) and whose cast table is the documented one; Kani (complete: loop-free, full i64/u64/f64 domain) on the comparison table sliced verbatim from the function: true only when the relation holds, exact IEEE semantics for doubles, trichotomy and unions for same-kind non-NaN operands",
        "assumptions": ["f64 operations are uninterpreted in Verus (deterministic functions); bit-precise facts come from the Kani slice", "numeric strings: str::parse is uninterpreted"],
    },
    "C11": {
        "units": {"paths": ["ObjectV::find", "ObjectVS::find"]},
        "kani": [{"name": "c11", "module": "c11_adapters.rs", "slice_file": "value.rs", "slices": {},
                  "harnesses": ["c11_signed_adapters", "c11_unsigned_adapters", "c11_float_bool_unit_option_adapters", "c11_to_i64"]},
                 {"name": "c11y", "module": "c11_yaml.rs", "slice_file": "yaml.rs", "slices": {},
                  "harnesses": ["c11_yaml_unsigned", "c11_yaml_signed", "c11_yaml_float_bool_null"]},
                 {"name": "c11j", "module": "c11_json.rs", "slice_file": "json.rs", "slices": {}, "extra": ["--features", "json"],
                  "harnesses": ["c11_json_unsigned", "c11_json_signed", "c11_json_float_bool_null"]}],
        "explanation": "Kani (complete: loop-free, full domain of every primitive) on the real macro-generated AsValue impls and on the real serde_yaml and serde_json adapters (yaml.rs, json.rs: every u64 / i64 / f64 number, booleans, null): kind, numeric value and signedness are preserved; Verus: Object::find depends on a document only through Object::get (its contract is stated over obj_get), and solve_expression's postcondition res == sem3(e, ids, document.model()) makes the verdict a function of the document model alone",
        "assumptions": ["container adapters (Vec, HashSet, HashMap), the Object impls of Mapping / Map are not under contract (iterator adapters and external types)"],
    },
    "C12": {
        "units": {"solver": ["solve_expression", "solve", "match_all", "match_of", "search", "slow_aho", "matches"], "paths": ["ObjectV::find", "ObjectVS::find"], "frame": FRAME_FNS},
        "explanation": "the part of the property a function contract can express: every matching function is proved EQUAL to a mathematical function of its arguments - solve_expression(e, ids, doc) == sem3(e, ids, doc.model()), matches == (sem3 == True), find == path_lookup - so a verdict cannot depend on what was matched before, on how often it is repeated or on anything but (expression, identifier table, document model); the functions take the rule by shared reference, so matching cannot modify it (Rust's borrow rules; Expression has no interior mutability of its own); lemma_frame adds that the verdict only depends on the fields the rule asks for",
        "assumptions": ["other processes / threads: not expressible as a function contract (no claim); regex and aho-corasick keep internal caches behind shared references: assumed not to affect results (their is_match / find contracts are uninterpreted FUNCTIONS of the haystack)",
                        "loading is deterministic only up to what parse_mapping's slices cover; optimising is NOT deterministic: see known finding C12-KF1"],
    },
    "C13": {
        "units": {"solver": ["validate", "matches", "solve"]},
        "explanation": "validate() is proved to return Ok exactly when every true_positives example is a mapping on which the rule's verdict (the same spec function matches() ensures) is true and every true_negatives example one on which it is false; its unwrap-free body cannot panic; optimised or not is irrelevant (any well-formed detection)",
        "assumptions": ["serde_yaml::Value::as_mapping and Mapping-as-Document are trusted glue (src/yaml.rs not under contract)", "rule_wf(self): loading establishes well-formedness (C03 link)"],
    },
    "C08": {
        "units": {"solver": ["solve_expression", "match_all", "match_of", "slow_aho", "lemma_of3_single", "lemma_bit_or", "lemma_bit_val", "lemma_bit_zero", "lemma_seen_step", "lemma_seen_all", "lemma_count_true_step", "lemma_count_true_mono", "lemma_match_unfold"], "batch": BATCH_FNS},
        "explanation": "all(X)/of(X, n) over identifier groups count the group's entries (solve_expression Match arms: and3 / of3 over sems); over a merged search they count distinct members: slow_aho's 64-bit bitmap is proved to equal ac_count (each member once, however often it occurs), match_all/match_of are proved equal to sem_all_leaf/sem_of_leaf for string, array and cast scalar values; a single predicate counts as a list of one member; the Matrix forms of all()/of() (match_all / match_of over an optimised or-group) are proved against rows_all_eval / rows_of_eval: every row true, resp. at least n rows true, over the same cache fold as the Matrix arm; parser side: the end of parse_mapping's Sequence arm (slice seqtail) is proved to keep the all()/of() quantifier around the batched group - a single un-merged member may stand for itself only under all(k) and of(k, 1), where lemma_single_quant proves it means the same - and lemma_ac_member proves that a merged automaton hits member p exactly when member p matches on its own, so slow_aho's distinct-member count is the number of matching members as written",
        "assumptions": ["slow_aho's HashSet branch (>= 64 needles) is a hole", "parse_mapping outside the four slices (Yaml walk, key parsing, numbers/booleans/nested members of a list) is not under contract",
                        "known finding C08-KF1: all()/of() over a list batched into more than one search evaluates each search as 'some member matches'"],
    },
    "C16": {
        "units": {"solver": ["solve_expression", "match_all", "match_of", "solve", "Cache::find", "Passthrough::find"], "paths": ["ObjectV::find", "ObjectVS::find"], "frame": FRAME_FNS},
        "explanation": "Document::find carries the precondition dm_permits(self.model(), key); solve/solve_expression/match_all/match_of require permitted(e, ids, doc) = every key in asks(e, ids) (the field names written in the rule; for a nested block only the block's own key) is permitted, and every find call site in them is a discharged obligation: the key passed is one the rule writes. The private Cache document only permits one-character column keys below its width, and the Matrix arm of solve_expression is verified: the user's document is only asked for the column names, the synthetic one-character keys only reach the Cache. lemma_frame (induction over sem3, incl. the Matrix cache fold): two documents that answer every asked key alike get the same three-valued result - so adding, removing or altering a field no predicate addresses cannot change a verdict.",
        "assumptions": ["nested all()-of-blocks over an array and matrix-in-array arms of solve_expression are holes"],
    },
    "C17": {
        "units": {"solver": ["solve_expression", "lemma_or3_reorder", "lemma_and3_truth_reorder", "lemma_reorder_same_values", "lemma_binary_commute", "lemma_of0_reorder", "lemma_group_reorder", "lemma_and3_true_iff", "lemma_and2", "lemma_or2", "search"], "matrix": MATRIX_FNS, "batch": BATCH_FNS},
        "explanation": "lemmas over the truth tables: or3 is invariant under any reordering of its operands, and3 / all are TRUE for the same operand sets under reordering, binary forms commute in truth; lifted to BooleanGroup expressions (lemma_group_reorder); with solve_expression == sem3 this is the property for or/and operands, mapping entries and sequences of mappings. The merged-search semantics (search_rel for AhoCorasick) is an existential over reported occurrences, hence order-free. matrix(): a row is true exactly when all conjuncts of its disjunct are, and the matrix exactly when some disjunct is - statements over sets, so the batching into rows and columns (whose order comes from a HashMap) cannot make the truth of the or-group depend on operand order.",
        "assumptions": ["list batching: proved for the batching block (aligned(context, needles), and the merged searches mean 'some member matches', a statement over the set of members); the classification of list members into the five vectors above it is not under contract", "of(n>=1) count invariance under reordering is not yet proved as a lemma"],
    },
    "C06": {
        "units": {"solver": SOLVER_CORE + ["solve"]},
        "explanation": "and/or/not/all/of arms of the real solve_expression are proved equal to the truth-table spec (and3/or3/not3/of3 over sems) for groups of any length",
        "assumptions": [],
    },
}

"""Which functions (under contract) carry which property.  Unit -> list of function names whose
every obligation must be discharged for the property to hold."""

SOLVER_CORE = ["solve_expression", "find", "lemma_match_unfold", "lemma_ids_wf",
               "lemma_and3_skip", "lemma_and3_first", "lemma_and3_all_true", "lemma_and3_true_iff",
               "lemma_and2", "lemma_or2", "lemma_count_true_step", "lemma_count_true_mono", "lemma_count_true_bound"]

PROPS = {
    "C06": {
        "units": {"solver": SOLVER_CORE},
        "explanation": "and/or/not/all/of arms of the real solve_expression are proved equal to the truth-table spec (and3/or3/not3/of3 over sems) for groups of any length",
        "assumptions": [],
    },
}

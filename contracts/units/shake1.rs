//%include prelude/head.rs
use aho_corasick::{AhoCorasick, AhoCorasickBuilder, AhoCorasickKind};
use regex::{Regex, RegexSet, RegexBuilder, RegexSetBuilder};

//%item value.rs trait_Array pub trait Array \{
//%item value.rs trait_Object pub trait Object \{
//%item parser.rs impl_PartialEq_Search impl PartialEq for Search

verus! {

//%include prelude/externals_re.rs
//%include prelude/externals_val.rs
//%include prelude/stdspecs.rs

//%item tokeniser.rs BoolSym pub enum BoolSym
//%item tokeniser.rs ModSym pub enum ModSym
//%item parser.rs MatchType pub enum MatchType
//%item parser.rs impl_MatchType impl MatchType
//%item parser.rs Match pub enum Match\b
//%item parser.rs Search pub enum Search
//%item parser.rs Expression pub enum Expression
//%item value.rs Value pub enum Value
//%item solver.rs SolverResult pub\(crate\) enum SolverResult

//%include spec/model.rs
//%include prelude/iters.rs
//%include spec/shape.rs
//%include spec/sem.rs
//%include spec/lemmas_tables.rs
//%include prelude/vecspecs.rs
//%include spec/lemmas_sems.rs

//%include prelude/rwspecs.rs
//%include prelude/s1specs.rs
//%include spec/shake1.rs

//%item optimiser.rs shake_1 fn shake_1

} // verus!
fn main() {}

//%include prelude/head.rs

use aho_corasick::AhoCorasick;
use regex::{Regex, RegexSet};
use std::convert::TryFrom;

pub type Result<T> = std::result::Result<T, Error>;

//%item parser.rs impl_PartialEq_Search impl PartialEq for Search

verus! {

//%include prelude/errors.rs
//%include prelude/stdspecs.rs
//%include prelude/peekable.rs
//%include prelude/externals_re.rs

//%item tokeniser.rs BoolSym pub enum BoolSym
//%item tokeniser.rs DelSym pub enum DelSym
//%item tokeniser.rs ModSym pub enum ModSym
//%item tokeniser.rs MiscSym pub enum MiscSym
//%item tokeniser.rs MatchSym pub enum MatchSym
//%item tokeniser.rs Token pub enum Token
//%item tokeniser.rs impl_Token impl Token \{
//%include spec/lex.rs
//%item tokeniser.rs Tokeniser pub trait Tokeniser
//%item tokeniser.rs impl_Tokeniser impl Tokeniser for String
//%item tokeniser.rs consume_while fn consume_while
//%item tokeniser.rs match_ahead fn match_ahead

//%item parser.rs MatchType pub enum MatchType
//%item parser.rs Match pub enum Match\b
//%item parser.rs Search pub enum Search
//%item parser.rs Expression pub enum Expression
//%item parser.rs impl_Expression impl Expression \{
//%include spec/shape.rs
//%include spec/syntax.rs
//%include spec/pratt.rs
//%include spec/closed_defs.rs
//%include spec/closed.rs
//%item parser.rs parse pub\(crate\) fn parse\b
//%item parser.rs parse_expr fn parse_expr
//%item parser.rs parse_led fn parse_led
//%item parser.rs parse_nud fn parse_nud

} // verus!
fn main() {}

//%include prelude/head.rs
use aho_corasick::{AhoCorasick, AhoCorasickBuilder, AhoCorasickKind};
use regex::{Regex, RegexSet, RegexBuilder, RegexSetBuilder};

//%item value.rs trait_Array pub trait Array \{
//%item value.rs trait_Object pub trait Object \{
//%item parser.rs impl_PartialEq_Search impl PartialEq for Search

pub type Result<T> = std::result::Result<T, Error>;

verus! {

//%include prelude/errors.rs
//%include prelude/externals_re.rs
//%include prelude/externals_val.rs
//%include prelude/stdspecs.rs

//%item tokeniser.rs BoolSym pub enum BoolSym
//%item tokeniser.rs ModSym pub enum ModSym
//%item parser.rs MatchType pub enum MatchType
//%item parser.rs impl_MatchType impl MatchType
//%item parser.rs Match pub enum Match\b
//%item parser.rs Search pub enum Search
//%item parser.rs Expression pub enum Expression
//%item value.rs Value pub enum Value
//%item solver.rs SolverResult pub\(crate\) enum SolverResult
//%item identifier.rs Pattern pub enum Pattern
//%item identifier.rs Identifier pub struct Identifier

//%include spec/model.rs
//%include prelude/iters.rs
//%include spec/shape.rs
//%include spec/sem.rs
//%include spec/lemmas_tables.rs
//%include prelude/vecspecs.rs
//%include spec/lemmas_sems.rs

//%include spec/batch.rs
//%include prelude/batchspecs.rs

// the Bool / Number members of a list value (the arms of `for value in s` that do not go through into_identifier):
// verified under both builds (members / members_ic = --cfg feature="ignore_case")
//%slice parser.rs member_bool fn parse_mapping ;; inside:nth=2:Yaml::Bool(b) => { ;; - ;; fn member_bool(misc: Option<ModSym>, e: Expression, unmatched_e: Expression, b: &bool, exact: &mut Vec<Identifier>, rest: &mut Vec<Expression>, mut number: bool, mut string: bool, mut boolean: bool) -> (bool, bool, bool) ;; (number, string, boolean) ;; cont:(number, string, boolean)

//%slice parser.rs member_number fn parse_mapping ;; after:nth=2:Yaml::Number(n) => { ;; "number must be a signed integer or float, encountered - {:?}", +2 ;; fn member_number(misc: Option<ModSym>, unmatched_e: Expression, n: &serde_yaml::Number, k: &String, exact: &mut Vec<Identifier>, rest: &mut Vec<Expression>, mut number: bool, mut string: bool) -> crate::Result<(bool, bool)> ;; - ;; cont:Ok((number, string))

} // verus!
fn main() {}

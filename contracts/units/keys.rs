//%include prelude/head.rs
use aho_corasick::{AhoCorasick, AhoCorasickBuilder, AhoCorasickKind};
use regex::{Regex, RegexSet, RegexBuilder, RegexSetBuilder};
use serde_yaml::{Mapping, Value as Yaml};

//%item value.rs trait_Array pub trait Array \{
//%item value.rs trait_Object pub trait Object \{
//%item parser.rs impl_PartialEq_Search impl PartialEq for Search

pub type Result<T> = std::result::Result<T, Error>;

verus! {

//%include prelude/errors.rs
//%include prelude/externals_re.rs
//%include prelude/externals_val.rs
//%include prelude/stdspecs.rs

//%item tokeniser.rs BoolSym pub enum BoolSym
//%item tokeniser.rs DelSym pub enum DelSym
//%item tokeniser.rs ModSym pub enum ModSym
//%item tokeniser.rs MiscSym pub enum MiscSym
//%item tokeniser.rs MatchSym pub enum MatchSym
//%item tokeniser.rs Token pub enum Token
//%item parser.rs MatchType pub enum MatchType
//%item parser.rs impl_MatchType impl MatchType
//%item parser.rs Match pub enum Match\b
//%item parser.rs Search pub enum Search
//%item parser.rs Expression pub enum Expression
//%item value.rs Value pub enum Value
//%item solver.rs SolverResult pub\(crate\) enum SolverResult

//%include prelude/keyspecs.rs

// the head of the body of `for (k, v) in mapping` in parse_mapping: what a mapping KEY means (C02, C17)
//%slice parser.rs key_head fn parse_mapping ;; after:for (k, v) in mapping { ;; block:let (e, f) = match k { ;; fn key_head(k: &Yaml, v: &Yaml, mut misc: Option<ModSym>) -> crate::Result<(Expression, String, Option<ModSym>)> ;; Ok((e, f, misc))


// parse_identifier: what an identifier's YAML value means as a whole - a mapping is its block, a sequence of mappings is
// the disjunction of the blocks in written order (C02, C17); parse_mapping itself stands here as an opaque function of the
// mapping (eleven of its blocks are verified as slices in units batch / members / keys)
//%include prelude/identseq.rs
//%item parser.rs parse_identifier pub fn parse_identifier
} // verus!
fn main() {}

//%include prelude/head.rs
use regex::{Regex, RegexBuilder};

pub type Result<T> = std::result::Result<T, Error>;

verus! {

//%include prelude/errors.rs
//%include prelude/stdspecs.rs
//%include prelude/identspecs.rs

//%item identifier.rs Pattern pub enum Pattern
//%item identifier.rs Identifier pub struct Identifier
//%item identifier.rs IdentifierParser pub trait IdentifierParser
//%include spec/ident.rs
//%item identifier.rs impl_IdentifierParser impl IdentifierParser for String

} // verus!
fn main() {}

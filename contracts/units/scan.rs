//%include prelude/head.rs
use regex::{Regex, RegexSet};
use aho_corasick::AhoCorasick;

// the serde error constructor of the visitor and `format_args!` only build the error value (opaque to every property)
macro_rules! format_args { ($($t:tt)*) => { () } }

//%item parser.rs impl_PartialEq_Search impl PartialEq for Search

verus! {

//%include prelude/stdspecs.rs
//%include prelude/externals_re.rs
//%include prelude/scanspecs.rs

//%item tokeniser.rs BoolSym pub enum BoolSym
//%item tokeniser.rs DelSym pub enum DelSym
//%item tokeniser.rs ModSym pub enum ModSym
//%item tokeniser.rs MiscSym pub enum MiscSym
//%item tokeniser.rs MatchSym pub enum MatchSym
//%item tokeniser.rs Token pub enum Token
//%item parser.rs MatchType pub enum MatchType
//%item parser.rs Match pub enum Match\b
//%item parser.rs Search pub enum Search
//%item parser.rs Expression pub enum Expression

//%include spec/closed_defs.rs

//%slice rule.rs ident_scan fn visit_map ;; let mut i = 0; ;; block:for token in &tokens { ;; fn ident_scan(tokens: Vec<Token>, identifiers: HashMap<String, Expression>) -> std::result::Result<(), de::Error> ;; Ok(())

} // verus!
fn main() {}

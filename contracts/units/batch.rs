//%include prelude/head.rs
use aho_corasick::{AhoCorasick, AhoCorasickBuilder, AhoCorasickKind};
use regex::{Regex, RegexSet, RegexBuilder, RegexSetBuilder};

//%item value.rs trait_Array pub trait Array \{
//%item value.rs trait_Object pub trait Object \{
//%item parser.rs impl_PartialEq_Search impl PartialEq for Search

pub type Result<T> = std::result::Result<T, Error>;

verus! {

//%include prelude/errors.rs
//%include prelude/externals_re.rs
//%include prelude/externals_val.rs
//%include prelude/stdspecs.rs

//%item tokeniser.rs BoolSym pub enum BoolSym
//%item tokeniser.rs ModSym pub enum ModSym
//%item parser.rs MatchType pub enum MatchType
//%item parser.rs impl_MatchType impl MatchType
//%item parser.rs Match pub enum Match\b
//%item parser.rs Search pub enum Search
//%item parser.rs Expression pub enum Expression
//%item value.rs Value pub enum Value
//%item solver.rs SolverResult pub\(crate\) enum SolverResult
//%item identifier.rs Pattern pub enum Pattern
//%item identifier.rs Identifier pub struct Identifier

//%include spec/model.rs
//%include prelude/iters.rs
//%include spec/shape.rs
//%include spec/sem.rs
//%include spec/lemmas_tables.rs
//%include prelude/vecspecs.rs
//%include spec/lemmas_sems.rs

//%include spec/batch.rs
//%include prelude/batchspecs.rs

//%slice parser.rs batch fn parse_mapping ;; afterblock:for value in s { ;; group.extend(rest); ;; fn batch(starts_with: Vec<Identifier>, contains: Vec<Identifier>, ends_with: Vec<Identifier>, exact: Vec<Identifier>, regex: Vec<Identifier>, rest: Vec<Expression>, f: String, cast: bool) -> crate::Result<(Vec<Expression>, bool)> ;; Ok((group, multiple))

//%slice parser.rs seqtail fn parse_mapping ;; if let Expression::Match(Match::All, _) | Expression::Match(Match::Of(_), _) = &e { ;; Expression::BooleanGroup(BoolSym::Or, group) +1 ;; fn seqtail(e: Expression, misc: Option<ModSym>, group: Vec<Expression>, multiple: bool, boolean: bool, mapping: bool, number: bool, string: bool) -> crate::Result<Expression> ;; Ok(@)

//%slice optimiser.rs shake_needles fn shake_1 ;; after:for ((field, cast, insensitive), searches) in needles { ;; aho.push(expression); +1 ;; fn shake_needles(field: String, cast: bool, insensitive: bool, searches: Vec<(MatchType, String)>, contains: &mut Vec<Expression>, ends_with: &mut Vec<Expression>, exact: &mut Vec<Expression>, starts_with: &mut Vec<Expression>, aho: &mut Vec<Expression>) ;; -

//%slice parser.rs single_pattern fn parse_mapping ;; match identifier.pattern { ;; block ;; fn single_pattern(identifier: Identifier, e: Expression, f: String, cast: bool) -> Expression ;; let r0 = @; r0

//%slice parser.rs classify_member fn parse_mapping ;; nth=2:match identifier.pattern { ;; block ;; fn classify_member(identifier: Identifier, e: Expression, unmatched_e: Expression, f: String, cast: bool, exact: &mut Vec<Identifier>, starts_with: &mut Vec<Identifier>, ends_with: &mut Vec<Identifier>, contains: &mut Vec<Identifier>, regex: &mut Vec<Identifier>, rest: &mut Vec<Expression>, mut string: bool, mut number: bool) -> (bool, bool) ;; (string, number)

//%slice parser.rs entry_tail fn parse_mapping ;; if let Some(ModSym::Not) = misc { ;; block +2 ;; fn entry_tail(misc: Option<ModSym>, expression: Expression, expressions: &mut Vec<Expression>) ;; -
//%slice parser.rs mapping_tail fn parse_mapping ;; afterblock:for (k, v) in mapping { ;; Ok(Expression::BooleanGroup(BoolSym::And, expressions)) ;; fn mapping_tail(expressions: Vec<Expression>) -> crate::Result<Expression> ;; -

//%slice parser.rs bool_value fn parse_mapping ;; inside:Yaml::Bool(b) => { ;; - ;; fn bool_value(misc: Option<ModSym>, e: Expression, f: String, b: &bool) -> Expression ;; let r0 = @; r0
//%slice parser.rs number_value fn parse_mapping ;; if let Some(i) = n.as_i64() { ;; "number must be a signed integer or float, encountered - {:?}", +3 ;; fn number_value(misc: Option<ModSym>, e: Expression, f: String, n: &serde_yaml::Number, k: &String) -> crate::Result<Expression> ;; Ok(@)

//%slice parser.rs list_flags fn parse_mapping ;; let mut boolean = false; ;; let mut string = false; ;; fn list_flags(misc: Option<ModSym>) -> (bool, bool, bool, bool, bool) ;; (boolean, cast, mapping, number, string)

//%slice parser.rs unmatched_key fn parse_mapping ;; let unmatched_e = if let Expression::Match(_, e) = &e { ;; block +2 ;; fn unmatched_key(e: Expression) -> Expression ;; unmatched_e

//%slice optimiser.rs shake_patterns fn shake_1 ;; after:for ((field, cast, insensitive), patterns) in patterns { ;; block:} else { ;; fn shake_patterns(field: String, cast: bool, insensitive: bool, patterns: Vec<String>, regex: &mut Vec<Expression>, regex_set: &mut Vec<Expression>) ;; -

} // verus!
fn main() {}

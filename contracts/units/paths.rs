//%include prelude/head.rs

//%item value.rs trait_Array pub trait Array \{
//%item value.rs trait_Object pub trait Object \{

verus! {

//%include prelude/stdspecs.rs
//%include prelude/externals_val.rs
//%item value.rs Value pub enum Value
//%include spec/model.rs
//%include prelude/paths.rs
//%include spec/paths.rs

// The default method body of `Object::find`, re-hosted in a Verus-visible trait (Verus rejects the
// Value <-> Object type/trait cycle on the real trait): same method text, `Object` renamed `ObjectV` (N10).
pub trait ObjectV {
    spec fn om(&self) -> ObjM;
    fn get(&self, key: &str) -> (r: Option<Value<'_>>)
        ensures optv(r) == obj_get(self.om(), key@);
//%item value.rs find fn find\(&self, key: &str\) -> Option<Value<'_>> \{
}

// the `sync`-feature text of the same default method (cfg(feature = "sync") trait Object)
pub trait ObjectVS {
    spec fn om(&self) -> ObjM;
    fn get(&self, key: &str) -> (r: Option<Value<'_>>)
        ensures optv(r) == obj_get(self.om(), key@);
//%item value.rs find_sync nth=1 fn find\(&self, key: &str\) -> Option<Value<'_>> \{
}

} // verus!
fn main() {}

//%include prelude/head.rs
use aho_corasick::AhoCorasick;
use regex::{Regex, RegexSet};
use serde_yaml::{Mapping, Value as Yaml};

pub type Result<T> = std::result::Result<T, Error>;

// Real trait texts, compiled by rustc outside verus! (Verus rejects the Value <-> Object type/trait
// cycle and `Box<dyn Iterator + '_>`); exposed to Verus through external_trait_specification.
//%item value.rs trait_Array pub trait Array \{
//%item value.rs trait_Object pub trait Object \{

//%item parser.rs impl_PartialEq_Search impl PartialEq for Search

verus! {

//%include prelude/externals_re.rs
//%include prelude/externals_val.rs
//%include prelude/stdspecs.rs
//%include prelude/iters.rs

//%item tokeniser.rs BoolSym pub enum BoolSym
//%item tokeniser.rs ModSym pub enum ModSym
//%item parser.rs MatchType pub enum MatchType
//%item parser.rs impl_MatchType impl MatchType
//%item parser.rs Match pub enum Match\b
//%item parser.rs Search pub enum Search
//%item parser.rs Expression pub enum Expression
//%item parser.rs impl_Expression impl Expression \{
//%item value.rs Value pub enum Value
//%item value.rs impl_Value impl Value<'_>
//%item document.rs Document pub trait Document \{
//%item document.rs impl_Document_dynObject impl Document for &dyn Object

//%item solver.rs SolverResult pub\(crate\) enum SolverResult

//%include spec/model.rs
//%include spec/shape.rs
//%include spec/sem.rs
//%include spec/syntax.rs
//%include spec/lemmas_tables.rs
//%include spec/lemmas.rs
//%item solver.rs Cache struct Cache
//%item solver.rs impl_Cache impl Document for Cache
//%item solver.rs Passthrough struct Passthrough
//%item solver.rs impl_Passthrough impl Document for Passthrough
//%item solver.rs solve_expression pub\(crate\) fn solve_expression
//%item rule.rs Detection pub struct Detection
//%item solver.rs solve pub fn solve\b
//%item rule.rs Rule pub struct Rule

//%include prelude/errors.rs
//%include prelude/yaml.rs
// The two methods of `impl Rule` that evaluate a rule, hosted in an impl block written here (the other methods
// of the real impl do file and serde I/O and are not under contract).
impl Rule {
//%item rule.rs matches pub fn matches
//%item rule.rs validate pub fn validate
}

//%item solver.rs match_all fn match_all
//%item solver.rs match_of fn match_of
//%item solver.rs search fn search
//%item solver.rs slow_aho fn slow_aho

} // verus!
fn main() {}

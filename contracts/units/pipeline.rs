//%include prelude/head.rs
use aho_corasick::{AhoCorasick, AhoCorasickBuilder, AhoCorasickKind};
use regex::{Regex, RegexSet, RegexBuilder, RegexSetBuilder};
use serde_yaml::{Mapping, Value as Yaml};

//%item parser.rs impl_PartialEq_Search impl PartialEq for Search

verus! {

//%include prelude/externals_re.rs
//%include prelude/stdspecs.rs

//%item tokeniser.rs BoolSym pub enum BoolSym
//%item tokeniser.rs ModSym pub enum ModSym
//%item parser.rs MatchType pub enum MatchType
//%item parser.rs impl_MatchType impl MatchType
//%item parser.rs Match pub enum Match\b
//%item parser.rs Search pub enum Search
//%item parser.rs Expression pub enum Expression

//%include prelude/pipespecs.rs

// src/optimiser.rs: the four passes stand here with the contracts proved in their own units (opaque relations, see
// prelude/pipespecs.rs); `shake` (the sequencing of shake_0 and shake_1) and the switch record are the real text.
// rule.rs names them through the module path `optimiser::`, which is re-created by re-export.
//%include prelude/pipe_passes.rs
//%item optimiser.rs Optimisations pub struct Optimisations
//%item optimiser.rs shake pub fn shake\b
pub mod optimiser {
    pub use super::{coalesce, shake, rewrite, matrix, Optimisations};
}

//%item rule.rs Detection pub struct Detection
//%item rule.rs Rule pub struct Rule
//%item rule.rs optimise_identifier fn optimise_identifier

// `Rule::optimise`, written as a free function over `this: Rule` (Verus has no `mut self` receiver; normalisation listed in
// the ghost file); the other methods of the real impl do file and serde I/O
//%item rule.rs optimise pub fn optimise

} // verus!
fn main() {}

// ---- spec/pratt.rs: the fixed condition grammar as a function of the token sequence (C05).
// `not` binds tightest (95), comparisons 90, `or` 80, `and` 70; equal powers associate to the left; a
// parenthesised group is parsed on its own.  p_parse is the reference the real parser must agree with on
// every condition it accepts; the property's clauses are lemmas over p_parse (below).

pub open spec fn bp(t: Token) -> u8 {
    match t {
        Token::Operator(s) => if s == BoolSym::Or { 80 } else if s == BoolSym::And { 70 } else { 90 },
        Token::Miscellaneous(_) => 95,
        Token::Modifier(_) => 60,
        Token::Match(_) => 60,
        _ => 0,
    }
}

pub open spec fn is_lp(t: Token) -> bool { t == Token::Delimiter(DelSym::LeftParenthesis) }
pub open spec fn is_rp(t: Token) -> bool { t == Token::Delimiter(DelSym::RightParenthesis) }

// tokens from `pos` up to the parenthesis that closes `depth` open ones, appended to `acc`: (inside, position after
// the closing parenthesis); running out of tokens closes implicitly (that is what the parser does)
pub open spec fn split_acc(ts: Seq<Token>, pos: int, depth: int, acc: Seq<Token>) -> (Seq<Token>, int)
    decreases ts.len() - pos,
{
    if pos < 0 || pos >= ts.len() { (acc, pos) }
    else if is_rp(ts[pos]) && depth == 1 { (acc, pos + 1) }
    else {
        let d2 = if is_lp(ts[pos]) { depth + 1 } else if is_rp(ts[pos]) { depth - 1 } else { depth };
        split_acc(ts, pos + 1, d2, acc.push(ts[pos]))
    }
}

// `( identifier )` at pos
pub open spec fn p_wrapped(ts: Seq<Token>, pos: int) -> Option<(String, int)> {
    if 0 <= pos && pos + 3 <= ts.len() && is_lp(ts[pos]) && ts[pos + 1] is Identifier && is_rp(ts[pos + 2]) { Some((ts[pos + 1]->Identifier_0, pos + 3)) } else { None }
}

pub open spec fn negatable(e: Expression) -> bool {
    e is BooleanGroup || e is BooleanExpression || e is Boolean || e is Identifier || e is Match || e is Negate || e is Nested || e is Search
}

pub open spec fn cmp_types_ok(op: BoolSym, l: Expression, r: Expression) -> bool {
    let num = |m: ModSym, lit_f: bool, lit_i: bool| true;
    match (l, r) {
        (Expression::Cast(_, ModSym::Flt), Expression::Cast(_, ModSym::Flt)) => true,
        (Expression::Cast(_, ModSym::Int), Expression::Cast(_, ModSym::Int)) => true,
        (Expression::Cast(_, ModSym::Str), Expression::Cast(_, ModSym::Str)) => op == BoolSym::Equal,
        (Expression::Cast(_, ModSym::Flt), Expression::Float(_)) => true,
        (Expression::Float(_), Expression::Cast(_, ModSym::Flt)) => true,
        (Expression::Cast(_, ModSym::Int), Expression::Integer(_)) => true,
        (Expression::Integer(_), Expression::Cast(_, ModSym::Int)) => true,
        _ => false,
    }
}

pub open spec fn p_nud(ts: Seq<Token>, pos: int) -> Option<(Expression, int)>
    decreases ts.len() - pos, 1int,
{
    if pos < 0 || pos >= ts.len() { None } else {
        let t = ts[pos];
        match t {
            Token::Delimiter(DelSym::LeftParenthesis) => {
                let (inner, after) = split_acc(ts, pos + 1, 1, Seq::empty());
                if inner.len() < ts.len() - pos { match p_parse(inner) { Some(e) => Some((e, after)), None => None } } else { None }
            },
            Token::Delimiter(_) => None,
            Token::Float(n) => Some((Expression::Float(n), pos + 1)),
            Token::Identifier(n) => Some((Expression::Identifier(n), pos + 1)),
            Token::Integer(n) => Some((Expression::Integer(n), pos + 1)),
            Token::Miscellaneous(_) => match p_expr(ts, pos + 1, 95) {
                Some((e, p2)) => if negatable(e) { Some((Expression::Negate(Box::new(e)), p2)) } else { None },
                None => None,
            },
            Token::Modifier(m) => match p_wrapped(ts, pos + 1) {
                Some((f, p2)) => Some((Expression::Cast(f, m), p2)),
                None => None,
            },
            Token::Match(MatchSym::All) => match p_wrapped(ts, pos + 1) {
                Some((f, p2)) => Some((Expression::Match(Match::All, Box::new(Expression::Identifier(f))), p2)),
                None => None,
            },
            Token::Match(MatchSym::Of) =>
                if pos + 6 <= ts.len() && is_lp(ts[pos + 1]) && ts[pos + 2] is Identifier && ts[pos + 3] == Token::Delimiter(DelSym::Comma)
                    && ts[pos + 4] is Integer && ts[pos + 4]->Integer_0 >= 0 && is_rp(ts[pos + 5]) {
                    Some((Expression::Match(Match::Of(ts[pos + 4]->Integer_0 as u64), Box::new(Expression::Identifier(ts[pos + 2]->Identifier_0))), pos + 6))
                } else { None },
            Token::Operator(_) => None,
        }
    }
}

pub open spec fn p_led(left: Expression, ts: Seq<Token>, pos: int) -> Option<(Expression, int)>
    decreases ts.len() - pos, 1int,
{
    if pos < 0 || pos >= ts.len() { None } else {
        match ts[pos] {
            Token::Operator(op) => match p_expr(ts, pos + 1, bp(ts[pos])) {
                Some((right, p2)) =>
                    if is_cmp(op) {
                        if cmp_types_ok(op, left, right) { Some((Expression::BooleanExpression(Box::new(left), op, Box::new(right)), p2)) } else { None }
                    } else if solvable(left) && solvable(right) {
                        Some((Expression::BooleanExpression(Box::new(left), op, Box::new(right)), p2))
                    } else { None },
                None => None,
            },
            _ => None,
        }
    }
}

// the operator loop of parse_expr
pub open spec fn p_loop(left: Expression, ts: Seq<Token>, pos: int, rbp: u8) -> Option<(Expression, int)>
    decreases ts.len() - pos, 2int,
{
    if pos < 0 || pos >= ts.len() || rbp >= bp(ts[pos]) { Some((left, pos)) }
    else {
        match p_led(left, ts, pos) {
            Some((l2, p2)) => if p2 > pos && p2 <= ts.len() { p_loop(l2, ts, p2, rbp) } else { None },
            None => None,
        }
    }
}

pub open spec fn p_expr(ts: Seq<Token>, pos: int, rbp: u8) -> Option<(Expression, int)>
    decreases ts.len() - pos, 3int,
{
    match p_nud(ts, pos) {
        Some((left, p1)) => if p1 >= pos && p1 <= ts.len() { p_loop(left, ts, p1, rbp) } else { None },
        None => None,
    }
}

pub open spec fn p_parse(ts: Seq<Token>) -> Option<Expression>
    decreases ts.len(), 4int,
{
    match p_expr(ts, 0, 0) {
        Some((e, p)) => if p >= ts.len() { Some(e) } else { None },
        None => None,
    }
}

// the token sequence a peekable walks (fixed) and where it stands
pub open spec fn tbase<'a>(it: Peekable<std::slice::Iter<'a, Token>>) -> Seq<Token> {
    Seq::new(pk_base(it).len(), |i: int| *pk_base(it)[i])
}

// ---- C05: the clauses of the property as lemmas over the grammar function
pub open spec fn tid(s: String) -> Token { Token::Identifier(s) }
pub open spec fn top(o: BoolSym) -> Token { Token::Operator(o) }
pub open spec fn eid(s: String) -> Expression { Expression::Identifier(s) }
pub open spec fn ebin(l: Expression, o: BoolSym, r: Expression) -> Expression { Expression::BooleanExpression(Box::new(l), o, Box::new(r)) }

// `or` binds tighter than `and`, on either side
pub proof fn lemma_or_binds_tighter_than_and(a: String, b: String, c: String)
    ensures
        p_parse(seq![tid(a), top(BoolSym::Or), tid(b), top(BoolSym::And), tid(c)]) == Some(ebin(ebin(eid(a), BoolSym::Or, eid(b)), BoolSym::And, eid(c))),   // P:C05
        p_parse(seq![tid(a), top(BoolSym::And), tid(b), top(BoolSym::Or), tid(c)]) == Some(ebin(eid(a), BoolSym::And, ebin(eid(b), BoolSym::Or, eid(c)))),   // P:C05
{
    let t1 = seq![tid(a), top(BoolSym::Or), tid(b), top(BoolSym::And), tid(c)];
    assert(t1.len() == 5 && t1[0] == tid(a) && t1[1] == top(BoolSym::Or) && t1[2] == tid(b) && t1[3] == top(BoolSym::And) && t1[4] == tid(c));
    assert(p_nud(t1, 0) == Some((eid(a), 1int)));
    assert(p_nud(t1, 2) == Some((eid(b), 3int)));
    assert(p_nud(t1, 4) == Some((eid(c), 5int)));
    assert(p_loop(eid(b), t1, 3, 80) == Some((eid(b), 3int)));
    assert(p_expr(t1, 2, 80) == Some((eid(b), 3int)));
    let ab = ebin(eid(a), BoolSym::Or, eid(b));
    assert(p_led(eid(a), t1, 1) == Some((ab, 3int)));
    assert(p_loop(eid(c), t1, 5, 70) == Some((eid(c), 5int)));
    assert(p_expr(t1, 4, 70) == Some((eid(c), 5int)));
    let abc = ebin(ab, BoolSym::And, eid(c));
    assert(p_led(ab, t1, 3) == Some((abc, 5int)));
    assert(p_loop(abc, t1, 5, 0) == Some((abc, 5int)));
    assert(p_loop(ab, t1, 3, 0) == Some((abc, 5int)));
    assert(p_loop(eid(a), t1, 1, 0) == Some((abc, 5int)));
    assert(p_expr(t1, 0, 0) == Some((abc, 5int)));

    let t2 = seq![tid(a), top(BoolSym::And), tid(b), top(BoolSym::Or), tid(c)];
    assert(t2.len() == 5 && t2[0] == tid(a) && t2[1] == top(BoolSym::And) && t2[2] == tid(b) && t2[3] == top(BoolSym::Or) && t2[4] == tid(c));
    assert(p_nud(t2, 0) == Some((eid(a), 1int)));
    assert(p_nud(t2, 2) == Some((eid(b), 3int)));
    assert(p_nud(t2, 4) == Some((eid(c), 5int)));
    assert(p_loop(eid(c), t2, 5, 80) == Some((eid(c), 5int)));
    assert(p_expr(t2, 4, 80) == Some((eid(c), 5int)));
    let bc = ebin(eid(b), BoolSym::Or, eid(c));
    assert(p_led(eid(b), t2, 3) == Some((bc, 5int)));
    assert(p_loop(bc, t2, 5, 70) == Some((bc, 5int)));
    assert(p_loop(eid(b), t2, 3, 70) == Some((bc, 5int)));
    assert(p_expr(t2, 2, 70) == Some((bc, 5int)));
    let a_bc = ebin(eid(a), BoolSym::And, bc);
    assert(p_led(eid(a), t2, 1) == Some((a_bc, 5int)));
    assert(p_loop(a_bc, t2, 5, 0) == Some((a_bc, 5int)));
    assert(p_loop(eid(a), t2, 1, 0) == Some((a_bc, 5int)));
    assert(p_expr(t2, 0, 0) == Some((a_bc, 5int)));
}

// equal operators associate to the left
pub proof fn lemma_left_associative(a: String, b: String, c: String, o: BoolSym)
    requires o == BoolSym::And || o == BoolSym::Or,
    ensures
        p_parse(seq![tid(a), top(o), tid(b), top(o), tid(c)]) == Some(ebin(ebin(eid(a), o, eid(b)), o, eid(c))),   // P:C05
{
    let t1 = seq![tid(a), top(o), tid(b), top(o), tid(c)];
    let w = bp(top(o));
    assert(t1.len() == 5 && t1[0] == tid(a) && t1[1] == top(o) && t1[2] == tid(b) && t1[3] == top(o) && t1[4] == tid(c));
    assert(p_nud(t1, 0) == Some((eid(a), 1int)));
    assert(p_nud(t1, 2) == Some((eid(b), 3int)));
    assert(p_nud(t1, 4) == Some((eid(c), 5int)));
    assert(p_loop(eid(b), t1, 3, w) == Some((eid(b), 3int)));   // equal power: the loop stops, so the left operand closes first
    assert(p_expr(t1, 2, w) == Some((eid(b), 3int)));
    let ab = ebin(eid(a), o, eid(b));
    assert(p_led(eid(a), t1, 1) == Some((ab, 3int)));
    assert(p_loop(eid(c), t1, 5, w) == Some((eid(c), 5int)));
    assert(p_expr(t1, 4, w) == Some((eid(c), 5int)));
    let abc = ebin(ab, o, eid(c));
    assert(p_led(ab, t1, 3) == Some((abc, 5int)));
    assert(p_loop(abc, t1, 5, 0) == Some((abc, 5int)));
    assert(p_loop(ab, t1, 3, 0) == Some((abc, 5int)));
    assert(p_loop(eid(a), t1, 1, 0) == Some((abc, 5int)));
    assert(p_expr(t1, 0, 0) == Some((abc, 5int)));
}

// `not` applies to the single operand that follows it
pub proof fn lemma_not_single_operand(a: String, b: String, o: BoolSym)
    requires o == BoolSym::And || o == BoolSym::Or,
    ensures
        p_parse(seq![Token::Miscellaneous(MiscSym::Not), tid(a), top(o), tid(b)]) == Some(ebin(Expression::Negate(Box::new(eid(a))), o, eid(b))),   // P:C05
        p_parse(seq![Token::Miscellaneous(MiscSym::Not), Token::Miscellaneous(MiscSym::Not), tid(a)])
            == Some(Expression::Negate(Box::new(Expression::Negate(Box::new(eid(a)))))),   // P:C05
{
    let n = Token::Miscellaneous(MiscSym::Not);
    let t1 = seq![n, tid(a), top(o), tid(b)];
    let w = bp(top(o));
    assert(t1.len() == 4 && t1[0] == n && t1[1] == tid(a) && t1[2] == top(o) && t1[3] == tid(b));
    assert(p_nud(t1, 1) == Some((eid(a), 2int)));
    assert(p_loop(eid(a), t1, 2, 95) == Some((eid(a), 2int)));
    assert(p_expr(t1, 1, 95) == Some((eid(a), 2int)));
    let na = Expression::Negate(Box::new(eid(a)));
    assert(p_nud(t1, 0) == Some((na, 2int)));
    assert(p_nud(t1, 3) == Some((eid(b), 4int)));
    assert(p_loop(eid(b), t1, 4, w) == Some((eid(b), 4int)));
    assert(p_expr(t1, 3, w) == Some((eid(b), 4int)));
    let r = ebin(na, o, eid(b));
    assert(p_led(na, t1, 2) == Some((r, 4int)));
    assert(p_loop(r, t1, 4, 0) == Some((r, 4int)));
    assert(p_loop(na, t1, 2, 0) == Some((r, 4int)));
    assert(p_expr(t1, 0, 0) == Some((r, 4int)));

    let t2 = seq![n, n, tid(a)];
    assert(t2.len() == 3 && t2[0] == n && t2[1] == n && t2[2] == tid(a));
    assert(p_nud(t2, 2) == Some((eid(a), 3int)));
    assert(p_loop(eid(a), t2, 3, 95) == Some((eid(a), 3int)));
    assert(p_expr(t2, 2, 95) == Some((eid(a), 3int)));
    assert(p_nud(t2, 1) == Some((na, 3int)));
    assert(p_loop(na, t2, 3, 95) == Some((na, 3int)));
    assert(p_expr(t2, 1, 95) == Some((na, 3int)));
    let nna = Expression::Negate(Box::new(na));
    assert(p_nud(t2, 0) == Some((nna, 3int)));
    assert(p_loop(nna, t2, 3, 0) == Some((nna, 3int)));
    assert(p_expr(t2, 0, 0) == Some((nna, 3int)));
}

// parentheses override the binding powers: `( a and b ) or c` groups a,b first; and a parenthesised atom is the atom
pub proof fn lemma_parentheses(a: String, b: String, c: String)
    ensures
        p_parse(seq![Token::Delimiter(DelSym::LeftParenthesis), tid(a), top(BoolSym::And), tid(b), Token::Delimiter(DelSym::RightParenthesis), top(BoolSym::Or), tid(c)])
            == Some(ebin(ebin(eid(a), BoolSym::And, eid(b)), BoolSym::Or, eid(c))),   // P:C05
        p_parse(seq![Token::Delimiter(DelSym::LeftParenthesis), tid(a), Token::Delimiter(DelSym::RightParenthesis)]) == p_parse(seq![tid(a)]),   // P:C05
{
    let lp = Token::Delimiter(DelSym::LeftParenthesis);
    let rp = Token::Delimiter(DelSym::RightParenthesis);
    let t = seq![lp, tid(a), top(BoolSym::And), tid(b), rp, top(BoolSym::Or), tid(c)];
    assert(t.len() == 7 && t[0] == lp && t[1] == tid(a) && t[2] == top(BoolSym::And) && t[3] == tid(b) && t[4] == rp && t[5] == top(BoolSym::Or) && t[6] == tid(c));
    let e0 = Seq::<Token>::empty();
    let inner = seq![tid(a), top(BoolSym::And), tid(b)];
    assert(split_acc(t, 4, 1, e0.push(t[1]).push(t[2]).push(t[3])) == (e0.push(t[1]).push(t[2]).push(t[3]), 5int));
    assert(split_acc(t, 3, 1, e0.push(t[1]).push(t[2])) == split_acc(t, 4, 1, e0.push(t[1]).push(t[2]).push(t[3])));
    assert(split_acc(t, 2, 1, e0.push(t[1])) == split_acc(t, 3, 1, e0.push(t[1]).push(t[2])));
    assert(split_acc(t, 1, 1, e0) == split_acc(t, 2, 1, e0.push(t[1])));
    assert(e0.push(t[1]).push(t[2]).push(t[3]) =~= inner);
    // the inner tokens on their own
    assert(inner.len() == 3 && inner[0] == tid(a) && inner[1] == top(BoolSym::And) && inner[2] == tid(b));
    assert(p_nud(inner, 0) == Some((eid(a), 1int)));
    assert(p_nud(inner, 2) == Some((eid(b), 3int)));
    assert(p_loop(eid(b), inner, 3, 70) == Some((eid(b), 3int)));
    assert(p_expr(inner, 2, 70) == Some((eid(b), 3int)));
    let ab = ebin(eid(a), BoolSym::And, eid(b));
    assert(p_led(eid(a), inner, 1) == Some((ab, 3int)));
    assert(p_loop(ab, inner, 3, 0) == Some((ab, 3int)));
    assert(p_loop(eid(a), inner, 1, 0) == Some((ab, 3int)));
    assert(p_expr(inner, 0, 0) == Some((ab, 3int)));
    assert(p_parse(inner) == Some(ab));
    assert(p_nud(t, 0) == Some((ab, 5int)));
    assert(p_nud(t, 6) == Some((eid(c), 7int)));
    assert(p_loop(eid(c), t, 7, 80) == Some((eid(c), 7int)));
    assert(p_expr(t, 6, 80) == Some((eid(c), 7int)));
    let r = ebin(ab, BoolSym::Or, eid(c));
    assert(p_led(ab, t, 5) == Some((r, 7int)));
    assert(p_loop(r, t, 7, 0) == Some((r, 7int)));
    assert(p_loop(ab, t, 5, 0) == Some((r, 7int)));
    assert(p_expr(t, 0, 0) == Some((r, 7int)));

    let u = seq![lp, tid(a), rp];
    let one = seq![tid(a)];
    assert(u.len() == 3 && u[0] == lp && u[1] == tid(a) && u[2] == rp);
    assert(split_acc(u, 2, 1, e0.push(u[1])) == (e0.push(u[1]), 3int));
    assert(split_acc(u, 1, 1, e0) == split_acc(u, 2, 1, e0.push(u[1])));
    assert(e0.push(u[1]) =~= one);
    assert(one.len() == 1 && one[0] == tid(a));
    assert(p_nud(one, 0) == Some((eid(a), 1int)));
    assert(p_loop(eid(a), one, 1, 0) == Some((eid(a), 1int)));
    assert(p_expr(one, 0, 0) == Some((eid(a), 1int)));
    assert(p_parse(one) == Some(eid(a)));
    assert(p_nud(u, 0) == Some((eid(a), 3int)));
    assert(p_loop(eid(a), u, 3, 0) == Some((eid(a), 3int)));
    assert(p_expr(u, 0, 0) == Some((eid(a), 3int)));
}

// ---- spec/paths.rs: what a field path addresses (C10), written from the property statement:
// 'a.b.c' descends objects a, b, c; 'name[i]' is the i-th element of array 'name'; a lookup succeeds only if
// every step exists and has the right shape, otherwise the field is missing.

pub open spec fn seg_is_indexed(k: Seq<char>) -> bool {
    b_ends_with(bytes(k), pattern_bytes(']')) && b_contains(bytes(k), pattern_bytes('['))
}

pub ghost enum Cursor { Root, At(V) }

// the object a segment is looked up in, if the cursor has the right shape
pub open spec fn holder(root: ObjM, cur: Cursor) -> Option<ObjM> {
    match cur {
        Cursor::Root => Some(root),
        Cursor::At(V::Object(o)) => Some(o),
        Cursor::At(_) => None,
    }
}

// one step; None = the path does not exist
pub open spec fn path_step(root: ObjM, cur: Cursor, k: Seq<char>) -> Option<V> {
    match holder(root, cur) {
        None => None,
        Some(o) => if seg_is_indexed(k) {
            let parts = split_spec(k, '[');
            let idx = if parts.len() > 1 { seg_index(parts[1]) } else { None };
            match idx {
                None => None,
                Some(i) => match obj_get(o, parts[0]) {
                    Some(V::Array(a)) => if i < arr_elems(a).len() { Some(arr_elems(a)[i as int]) } else { None },
                    _ => None,
                },
            }
        } else {
            obj_get(o, k)
        },
    }
}

pub open spec fn path_lookup(root: ObjM, segs: Seq<Seq<char>>, i: int, cur: Cursor) -> Option<V>
    decreases segs.len() - i,
{
    if i >= segs.len() {
        match cur { Cursor::Root => None, Cursor::At(v) => Some(v) }
    } else {
        match path_step(root, cur, segs[i]) {
            None => None,
            Some(v) => path_lookup(root, segs, i + 1, Cursor::At(v)),
        }
    }
}

pub open spec fn cursor_of(v: Option<Value<'_>>) -> Cursor {
    match v { None => Cursor::Root, Some(x) => Cursor::At(x@) }
}

// ---- spec/matrix_sem.rs: the structural relation of spec/matrix.rs implies that the or-group keeps its truth (C01)
//
// Only TRUTH is preserved, not the False/Missing distinction: a row evaluates its cells in column order, `and`
// yields the first non-true operand in written order (known finding C01-KF2).  Hence the contract of matrix() promises
// truth-equivalence where no rewritten or-group sits under a negation, and full equivalence where nothing is rewritten.

pub open spec fn tr(e: Expression, ids: Ids, d: DocM) -> bool { sem3(e, ids, d) == SolverResult::True }

// truth-equivalence / equivalence for one identifier table and every document
pub open spec fn tsame_at(a: Expression, b: Expression, ids: Ids) -> bool {
    forall|d: DocM| #[trigger] tr(a, ids, d) == tr(b, ids, d)
}

// ---------------------------------------------------------------- one cell
// a comparison of a re-keyed field / cast with a literal, against the cache, is the original comparison
pub proof fn lemma_cmp_rekey(l2: Expression, l: Expression, op: BoolSym, r: Expression, i: int, c: Seq<Option<V>>, d: DocM)
    requires
        is_lit(r),
        match (l2, l) {
            (Expression::Cast(f2, k2), Expression::Cast(f, k)) => is_key(f2@, i) && k2 == k && c[i] == dm_find(d, f@),
            (Expression::Field(f2), Expression::Field(f)) => is_key(f2@, i) && c[i] == dm_find(d, f@),
            _ => false,
        },
        0 <= i < c.len(),
        c[i] is Some,
    ensures
        sem_cmp(l2, op, r, DocM::Cache(c)) == sem_cmp(l, op, r, d),
{
    let dc = DocM::Cache(c);
    let f2 = match l2 { Expression::Cast(f2, _) => f2, Expression::Field(f2) => f2, _ => arbitrary() };
    let f = match l { Expression::Cast(f, _) => f, Expression::Field(f) => f, _ => arbitrary() };
    assert(cache_index(f2@) == i);
    assert(dm_find(dc, f2@) == dm_find(d, f@));
    assert(operand(r, dc) == operand(r, d));
    assert(operand(l2, dc) == operand(l, d));
}

// a re-keyed cell against a cache that holds the field's value under the column index means what the conjunct means
pub proof fn lemma_cell_sem(cell: Expression, x: Expression, i: int, c: Seq<Option<V>>, ids: Ids, d: DocM)
    requires
        is_rekey(cell, x, i), cell_ok(x),
        0 <= i < c.len(),
        c[i] is Some,
        c[i] == dm_find(d, elem_field(x)->Some_0@),
    ensures
        sem3(cell, ids, DocM::Cache(c)) == sem3(x, ids, d),
{
    let dc = DocM::Cache(c);
    match x {
        Expression::BooleanExpression(l, op, r) => {
            let l2 = *cell->BooleanExpression_0;
            assert(cell == Expression::BooleanExpression(Box::new(l2), op, r));
            if op == BoolSym::And || op == BoolSym::Or {
                assert(sem3(l2, ids, dc) == SolverResult::Missing && sem3(*l, ids, d) == SolverResult::Missing);
                assert(sem3(*r, ids, dc) == SolverResult::Missing && sem3(*r, ids, d) == SolverResult::Missing);
            } else {
                lemma_cmp_rekey(l2, *l, op, *r, i, c, d);
                assert(sem3(cell, ids, dc) == sem_cmp(l2, op, *r, dc));
                assert(sem3(x, ids, d) == sem_cmp(*l, op, *r, d));
            }
        },
        Expression::Nested(f, inner) => {
            let f2 = cell->Nested_0;
            assert(cell == Expression::Nested(f2, inner));
            assert(cache_index(f2@) == i);
            assert(dm_find(dc, f2@) == dm_find(d, f@));
        },
        Expression::Search(kind, f, cast) => {
            let f2 = cell->Search_1;
            assert(cell == Expression::Search(kind, f2, cast));
            assert(cache_index(f2@) == i);
            assert(dm_find(dc, f2@) == dm_find(d, f@));
            assert(sem3(cell, ids, dc) == sem_search(kind, f2@, cast, dc));
            assert(sem3(x, ids, d) == sem_search(kind, f@, cast, d));
        },
        _ => {},
    }
}

// a conjunct whose field the document lacks is not true
pub proof fn lemma_cell_missing(x: Expression, ids: Ids, d: DocM)
    requires cell_ok(x), dm_find(d, elem_field(x)->Some_0@) is None,
    ensures !tr(x, ids, d),
{
    match x {
        Expression::BooleanExpression(l, op, r) => {
            assert(sem3(*l, ids, d) == SolverResult::Missing);
            assert(sem3(*r, ids, d) == SolverResult::Missing);
            if op == BoolSym::And || op == BoolSym::Or {
                assert(sem3(x, ids, d) == SolverResult::Missing);
            } else {
                assert(sem3(x, ids, d) == sem_cmp(*l, op, *r, d));
                assert(operand(*l, d) == Opd::Missing || operand(*l, d) == Opd::False);
                assert(sem_cmp(*l, op, *r, d) != SolverResult::True);
            }
        },
        Expression::Nested(f, inner) => {
            assert(sem3(x, ids, d) == SolverResult::Missing);
        },
        Expression::Search(kind, f, cast) => {
            assert(sem3(x, ids, d) == SolverResult::Missing);
        },
        _ => {},
    }
}

// ---------------------------------------------------------------- one row
pub open spec fn coherent(cache: Seq<Option<V>>, cols: Seq<String>, d: DocM) -> bool {
    cache.len() == cols.len() && forall|i: int| 0 <= i < cache.len() && (#[trigger] cache[i]) is Some ==> cache[i] == dm_find(d, cols[i]@)
}

// cell i of the row is the re-keyed conjunct c
pub open spec fn cell_of(cols: Seq<String>, row: Seq<Option<Expression>>, cj: Seq<Expression>, i: int, c: int) -> bool {
    0 <= i < row.len() && 0 <= c < cj.len() && row[i] is Some && is_rekey(row[i]->Some_0, cj[c], i) && elem_field(cj[c]) == Some(cols[i]) && cell_ok(cj[c])
}

// all conjuncts placed at columns >= i are true
pub open spec fn cells_true_from(cols: Seq<String>, row: Seq<Option<Expression>>, cj: Seq<Expression>, i: int, ids: Ids, d: DocM) -> bool {
    forall|i2: int, c: int| i <= i2 && #[trigger] cell_of(cols, row, cj, i2, c) ==> tr(cj[c], ids, d)
}

pub open spec fn cells_defined(parent: Expression, row: Vec<Option<Expression>>) -> bool {
    forall|k: int| 0 <= k < row.len() && (#[trigger] row[k]) is Some ==> decreases_to!(parent => row[k]->Some_0) && lvl(row[k]->Some_0) <= lvl(parent)
}

pub proof fn lemma_row_eval(cols: Vec<String>, row: Vec<Option<Expression>>, cj: Seq<Expression>, i: int, cache: Seq<Option<V>>, ids: Ids, d: DocM, parent: Expression)
    requires
        row@.len() == cols@.len(),
        coherent(cache, cols@, d),
        0 <= i <= row@.len(),
        cells_defined(parent, row),
        // every present cell is some conjunct
        forall|i2: int| 0 <= i2 < row@.len() && (#[trigger] row@[i2]) is Some ==> exists|c: int| cell_of(cols@, row@, cj, i2, c),
    ensures
        coherent(row_eval(cols, row, i, cache, ids, d, parent).1, cols@, d),
        (row_eval(cols, row, i, cache, ids, d, parent).0 == SolverResult::True) <==> cells_true_from(cols@, row@, cj, i, ids, d),
    decreases row@.len() - i,
{
    if i >= row@.len() {
        assert(row_eval(cols, row, i, cache, ids, d, parent) == (SolverResult::True, cache));
    } else {
        match row@[i] {
            None => {
                lemma_row_eval(cols, row, cj, i + 1, cache, ids, d, parent);
                assert(row_eval(cols, row, i, cache, ids, d, parent) == row_eval(cols, row, i + 1, cache, ids, d, parent));
                assert forall|i2: int, c: int| i <= i2 && #[trigger] cell_of(cols@, row@, cj, i2, c) implies i + 1 <= i2 by {}
            },
            Some(cell) => {
                let c0 = choose|c: int| cell_of(cols@, row@, cj, i, c);
                assert(cell_of(cols@, row@, cj, i, c0));
                let x0 = cj[c0];
                assert(elem_field(x0)->Some_0 == cols@[i]);
                if cache[i] is None && dm_find(d, cols@[i]@) is None {
                    assert(row_eval(cols, row, i, cache, ids, d, parent) == (SolverResult::Missing, cache));
                    lemma_cell_missing(x0, ids, d);
                    assert(!cells_true_from(cols@, row@, cj, i, ids, d));
                } else {
                    let c = if cache[i] is None { cache.update(i, Some(dm_find(d, cols@[i]@)->Some_0)) } else { cache };
                    assert(coherent(c, cols@, d));
                    assert(c[i] is Some && c[i] == dm_find(d, cols@[i]@));
                    let r = sem3(cell, ids, DocM::Cache(c));
                    assert forall|c2: int| cell_of(cols@, row@, cj, i, c2) implies r == sem3(cj[c2], ids, d) by {
                        lemma_cell_sem(cell, cj[c2], i, c, ids, d);
                    }
                    if r == SolverResult::True {
                        lemma_row_eval(cols, row, cj, i + 1, c, ids, d, parent);
                        assert(row_eval(cols, row, i, cache, ids, d, parent) == row_eval(cols, row, i + 1, c, ids, d, parent));
                        assert forall|i2: int, c2: int| i <= i2 && #[trigger] cell_of(cols@, row@, cj, i2, c2) && cells_true_from(cols@, row@, cj, i + 1, ids, d) implies tr(cj[c2], ids, d) by {
                            if i2 == i { assert(r == sem3(cj[c2], ids, d)); }
                        }
                    } else {
                        assert(row_eval(cols, row, i, cache, ids, d, parent) == (r, c));
                        assert(!tr(x0, ids, d));
                        assert(!cells_true_from(cols@, row@, cj, i, ids, d));
                    }
                }
            },
        }
    }
}

pub open spec fn all_conj_true(s: Expression, ids: Ids, d: DocM) -> bool {
    forall|c: int| 0 <= c < conj(s).len() ==> tr(#[trigger] conj(s)[c], ids, d)
}

// a disjunct is true exactly when all its conjuncts are
pub proof fn lemma_conj_true(s: Expression, ids: Ids, d: DocM)
    ensures tr(s, ids, d) <==> all_conj_true(s, ids, d),
{
    let cj = conj(s);
    match s {
        Expression::BooleanGroup(BoolSym::And, g) => {
            lemma_sems_defined(BoolSym::And, g, ids, d);
            let sv = sems(g, ids, d, s);
            lemma_and3_true_iff(sv);
            assert(cj == g@);
            assert(sem3(s, ids, d) == and3(sv));
            if all_conj_true(s, ids, d) { assert forall|j: int| 0 <= j < sv.len() implies sv[j] == SolverResult::True by { assert(tr(cj[j], ids, d)); } }
            if tr(s, ids, d) { assert forall|c: int| 0 <= c < cj.len() implies tr(#[trigger] cj[c], ids, d) by { assert(sv[c] == SolverResult::True); } }
        },
        _ => {
            assert(cj =~= seq![s]);
            if all_conj_true(s, ids, d) { assert(tr(cj[0], ids, d)); }
        },
    }
}

// the cells of a row that is a disjunct are exactly its conjuncts
pub proof fn lemma_row_cells(cols: Seq<String>, row: Seq<Option<Expression>>, s: Expression, ids: Ids, d: DocM)
    requires row_ok(cols, row, s),
    ensures
        row.len() == cols.len(),
        forall|i2: int| 0 <= i2 < row.len() && (#[trigger] row[i2]) is Some ==> exists|c: int| cell_of(cols, row, conj(s), i2, c),
        cells_true_from(cols, row, conj(s), 0, ids, d) <==> all_conj_true(s, ids, d),
{
    reveal(row_ok);
    let cj = conj(s);
    assert forall|i2: int| 0 <= i2 < row.len() && (#[trigger] row[i2]) is Some implies exists|c: int| cell_of(cols, row, cj, i2, c) by {
        let c = choose|c: int| 0 <= c < cj.len() && #[trigger] is_rekey(row[i2]->Some_0, cj[c], i2) && elem_field(cj[c]) == Some(cols[i2]);
        assert(cell_of(cols, row, cj, i2, c));
    }
    if cells_true_from(cols, row, cj, 0, ids, d) {
        assert forall|c: int| 0 <= c < cj.len() implies tr(#[trigger] cj[c], ids, d) by {
            let i = choose|i: int| 0 <= i < row.len() && row[i] is Some && #[trigger] is_rekey(row[i]->Some_0, cj[c], i) && elem_field(cj[c]) == Some(cols[i]);
            assert(cell_of(cols, row, cj, i, c));
        }
    }
}

// a row that is a disjunct is true exactly when the disjunct is
pub proof fn lemma_row_sem(cols: Vec<String>, row: Vec<Option<Expression>>, s: Expression, cache: Seq<Option<V>>, ids: Ids, d: DocM, parent: Expression)
    requires
        row_ok(cols@, row@, s),
        coherent(cache, cols@, d),
        cells_defined(parent, row),
    ensures
        coherent(row_eval(cols, row, 0, cache, ids, d, parent).1, cols@, d),
        (row_eval(cols, row, 0, cache, ids, d, parent).0 == SolverResult::True) <==> tr(s, ids, d),
{
    lemma_row_cells(cols@, row@, s, ids, d);
    lemma_row_eval(cols, row, conj(s), 0, cache, ids, d, parent);
    lemma_conj_true(s, ids, d);
}

// ---------------------------------------------------------------- the rows of a matrix
pub open spec fn rows_defined(parent: Expression, rows: Vec<Vec<Option<Expression>>>) -> bool {
    forall|a: int, b: int| 0 <= a < rows.len() && 0 <= b < rows[a].len() && (#[trigger] rows[a][b]) is Some
        ==> decreases_to!(parent => rows[a][b]->Some_0) && lvl(rows[a][b]->Some_0) <= lvl(parent)
}

pub proof fn lemma_rows_eval(cols: Vec<String>, rows: Vec<Vec<Option<Expression>>>, rs: Seq<Expression>, j: int, cache: Seq<Option<V>>, acc: SolverResult, ids: Ids, d: DocM, parent: Expression)
    requires
        rs.len() == rows@.len(),
        forall|k: int| 0 <= k < rows@.len() ==> row_ok(cols@, (#[trigger] rows@[k])@, rs[k]),
        coherent(cache, cols@, d),
        0 <= j <= rows@.len(),
        rows_defined(parent, rows),
        acc != SolverResult::True,
    ensures
        (rows_eval(cols, rows, j, cache, acc, ids, d, parent) == SolverResult::True) <==> exists|k: int| j <= k < rs.len() && tr(#[trigger] rs[k], ids, d),
    decreases rows@.len() - j,
{
    if j < rows@.len() {
        assert(row_ok(cols@, rows@[j]@, rs[j]));
        assert(cells_defined(parent, rows@[j])) by {
            assert forall|k: int| 0 <= k < rows@[j].len() && (#[trigger] rows@[j][k]) is Some implies decreases_to!(parent => rows@[j][k]->Some_0) && lvl(rows@[j][k]->Some_0) <= lvl(parent) by {
                assert(rows[j][k] is Some);
            }
        }
        lemma_row_sem(cols, rows@[j], rs[j], cache, ids, d, parent);
        let (hit, c2) = row_eval(cols, rows@[j], 0, cache, ids, d, parent);
        if hit == SolverResult::True {
            assert(tr(rs[j], ids, d));
        } else {
            let acc2 = if hit == SolverResult::False { SolverResult::False } else { acc };
            lemma_rows_eval(cols, rows, rs, j + 1, c2, acc2, ids, d, parent);
            assert(rows_eval(cols, rows, j, cache, acc, ids, d, parent) == rows_eval(cols, rows, j + 1, c2, acc2, ids, d, parent));
            assert(!tr(rs[j], ids, d));
            if exists|k: int| j <= k < rs.len() && tr(#[trigger] rs[k], ids, d) {
                let k = choose|k: int| j <= k < rs.len() && tr(#[trigger] rs[k], ids, d);
                assert(j + 1 <= k);
            }
        }
    }
}

pub proof fn lemma_matrix_defined(cols: Vec<String>, rows: Vec<Vec<Option<Expression>>>)
    ensures rows_defined(Expression::Matrix(cols, rows), rows),
{
    let e = Expression::Matrix(cols, rows);
    assert forall|a: int, b: int| 0 <= a < rows.len() && 0 <= b < rows[a].len() && (#[trigger] rows[a][b]) is Some
        implies decreases_to!(e => rows[a][b]->Some_0) && lvl(rows[a][b]->Some_0) <= lvl(e) by {
        assert(e->Matrix_1 == rows);
        if has_ident(rows[a][b]->Some_0) {
            assert(has_ident(e) == (exists|j: int, i: int|
                0 <= j < rows.len() && 0 <= i < rows[j].len() && (#[trigger] rows[j][i]) is Some && has_ident(rows[j][i]->Some_0)));
        }
    }
}

// the matrix is true exactly when one of the disjuncts its rows stand for is
pub proof fn lemma_matrix_sem(cols: Vec<String>, rows: Vec<Vec<Option<Expression>>>, rs: Seq<Expression>, ids: Ids, d: DocM)
    requires
        rs.len() == rows@.len(),
        forall|k: int| 0 <= k < rows@.len() ==> row_ok(cols@, (#[trigger] rows@[k])@, rs[k]),
    ensures
        tr(Expression::Matrix(cols, rows), ids, d) <==> exists|k: int| 0 <= k < rs.len() && tr(#[trigger] rs[k], ids, d),
{
    let e = Expression::Matrix(cols, rows);
    lemma_matrix_defined(cols, rows);
    let c0 = empty_cache(cols.len() as nat);
    assert(coherent(c0, cols@, d));
    lemma_rows_eval(cols, rows, rs, 0, c0, SolverResult::Missing, ids, d, e);
}

// ---------------------------------------------------------------- the contract of matrix()
pub open spec fn esame_at(a: Expression, b: Expression, ids: Ids) -> bool {
    forall|d: DocM| #[trigger] sem3(a, ids, d) == sem3(b, ids, d)
}

// nothing matrix() would rewrite: no or-group on the paths it descends
pub open spec fn or_free(e: Expression) -> bool
    decreases e,
{
    match e {
        Expression::BooleanGroup(BoolSym::And, g) => forall|i: int| 0 <= i < g.len() ==> or_free(#[trigger] g[i]),
        Expression::BooleanGroup(BoolSym::Or, _) => false,
        Expression::BooleanExpression(l, _, r) => or_free(*l) && or_free(*r),
        Expression::Negate(x) => or_free(*x),
        Expression::Nested(_, x) => !(*x is Match) && or_free(*x),
        _ => true,
    }
}

// no rewritten or-group under a negation (where False and Missing differ: known finding C01-KF2); all()/of() directly
// under a nested key are left out (their array semantics depend on the shape shake_1 returns, which is not under contract)
pub open spec fn neg_safe(e: Expression) -> bool
    decreases e,
{
    match e {
        Expression::BooleanGroup(BoolSym::And, g) => forall|i: int| 0 <= i < g.len() ==> neg_safe(#[trigger] g[i]),
        Expression::BooleanGroup(BoolSym::Or, g) => forall|i: int| 0 <= i < g.len() ==> neg_safe(#[trigger] g[i]),
        Expression::BooleanExpression(l, op, r) => if is_cmp(op) { true } else { neg_safe(*l) && neg_safe(*r) },
        Expression::Negate(x) => or_free(*x),
        Expression::Nested(_, x) => !has_match_head(*x) && neg_safe(*x),
        _ => true,
    }
}

// an all()/of() at the head of a block, possibly inside or-groups: what matrix() may return as a bare all()/of()
pub open spec fn has_match_head(e: Expression) -> bool
    decreases e,
{
    match e {
        Expression::Match(_, _) => true,
        Expression::BooleanGroup(BoolSym::Or, g) => exists|j: int| 0 <= j < g.len() && has_match_head(#[trigger] g[j]),
        _ => false,
    }
}

// nested blocks contain no identifiers (identifier bodies never do; the condition grammar has no nested blocks)
pub open spec fn blocks_closed(e: Expression) -> bool
    decreases e,
{
    match e {
        Expression::BooleanGroup(_, g) => forall|i: int| 0 <= i < g.len() ==> blocks_closed(#[trigger] g[i]),
        Expression::BooleanExpression(l, _, r) => blocks_closed(*l) && blocks_closed(*r),
        Expression::Match(_, x) => blocks_closed(*x),
        Expression::Negate(x) => blocks_closed(*x),
        Expression::Nested(_, x) => !has_ident(*x) && blocks_closed(*x),
        _ => true,
    }
}

#[verifier::opaque]
pub open spec fn mx_post(r: Expression, e: Expression, ids: Ids) -> bool {
    &&& wf(r, ids)   // P:C03
    &&& blocks_closed(r)
    &&& solvable(r) == solvable(e)
    &&& !has_ident(e) ==> !has_ident(r)
    &&& neg_safe(e) ==> tsame_at(r, e, ids)   // P:C01,C17
    &&& or_free(e) ==> esame_at(r, e, ids)   // P:C01
}

pub open spec fn mx_pre(e: Expression, ids: Ids) -> bool { wf(e, ids) && blocks_closed(e) }

// an or-group is true exactly when one of its operands is
pub proof fn lemma_or_true(v: Vec<Expression>, ids: Ids, d: DocM)
    ensures tr(Expression::BooleanGroup(BoolSym::Or, v), ids, d) <==> exists|i: int| 0 <= i < v.len() && tr(#[trigger] v[i], ids, d),
{
    let e = Expression::BooleanGroup(BoolSym::Or, v);
    lemma_sems_defined(BoolSym::Or, v, ids, d);
    let sv = sems(v, ids, d, e);
    assert(sem3(e, ids, d) == or3(sv));
    if tr(e, ids, d) {
        let i = choose|i: int| 0 <= i < sv.len() && sv[i] == SolverResult::True;
        assert(tr(v[i], ids, d));
    }
    if exists|i: int| 0 <= i < v.len() && tr(#[trigger] v[i], ids, d) {
        let i = choose|i: int| 0 <= i < v.len() && tr(#[trigger] v[i], ids, d);
        assert(sv[i] == SolverResult::True);
    }
}

// a re-keyed cell is a well-formed matrix cell
pub proof fn lemma_cell_wf(cell: Expression, x: Expression, i: int, ids: Ids, width: nat)
    requires is_rekey(cell, x, i), cell_ok(x), wf(x, ids), blocks_closed(x), 0 <= i < width,
    ensures solvable(cell), wf(cell, ids), !has_ident(cell), cell_keys_ok(cell, ids, width), blocks_closed(cell),
{
    reveal_with_fuel(has_ident, 2);
    reveal_with_fuel(asks, 2);
    reveal_with_fuel(blocks_closed, 2);
    match x {
        Expression::BooleanExpression(l, op, r) => {
            assert(is_cmp(op));
            assert(cell is BooleanExpression);
            assert(solvable(cell));
            assert(!has_ident(cell));
            assert(blocks_closed(cell));
            assert(wf(cell, ids));
            let l2 = *cell->BooleanExpression_0;
            let f2 = match l2 { Expression::Cast(f2, _) => f2, Expression::Field(f2) => f2, _ => arbitrary() };
            assert(is_key(f2@, i));
            assert(operand_key(l2) == Some(f2@));
            assert(operand_key(*r) is None);
            assert forall|k: Seq<char>| #[trigger] asks(cell, ids, k) implies k.len() > 0 && cache_index(k) < width by {
                assert(k == f2@);
            }
        },
        Expression::Nested(f, inner) => {
            let f2 = cell->Nested_0;
            assert forall|k: Seq<char>| #[trigger] asks(cell, ids, k) implies k.len() > 0 && cache_index(k) < width by {
                assert(k == f2@);
            }
        },
        Expression::Search(kind, f, cast) => {
            let f2 = cell->Search_1;
            assert forall|k: Seq<char>| #[trigger] asks(cell, ids, k) implies k.len() > 0 && cache_index(k) < width by {
                assert(k == f2@);
            }
        },
        _ => {},
    }
}

pub open spec fn mx_result(cols: Vec<String>, rows: Vec<Vec<Option<Expression>>>, ev: Vec<Expression>) -> Expression {
    if ev.len() == 1 { ev[0] } else { Expression::BooleanGroup(BoolSym::Or, ev) }
}

// the disjunct each row stands for
pub open spec fn row_srcs(cols: Vec<String>, rows: Vec<Vec<Option<Expression>>>, scratch: Vec<Expression>) -> Seq<Expression> {
    Seq::new(rows@.len(), |k: int| scratch@[choose|j: int| 0 <= j < scratch@.len() && row_ok(cols@, rows@[k]@, #[trigger] scratch@[j])])
}

pub proof fn lemma_row_srcs(cols: Vec<String>, rows: Vec<Vec<Option<Expression>>>, rest: Seq<Expression>, scratch: Vec<Expression>)
    requires mx_inv(cols@, rows@, rest, scratch@),
    ensures
        row_srcs(cols, rows, scratch).len() == rows@.len(),
        forall|k: int| 0 <= k < rows@.len() ==> row_ok(cols@, (#[trigger] rows@[k])@, row_srcs(cols, rows, scratch)[k]) && scratch@.contains(row_srcs(cols, rows, scratch)[k]),
        forall|k: int| 0 <= k < rest.len() ==> scratch@.contains(#[trigger] rest[k]),
        forall|j: int| 0 <= j < scratch@.len() ==> placed(cols@, rows@, rest, #[trigger] scratch@[j]),
{
    reveal(mx_inv);
    let rs = row_srcs(cols, rows, scratch);
    assert forall|k: int| 0 <= k < rows@.len() implies row_ok(cols@, (#[trigger] rows@[k])@, rs[k]) && scratch@.contains(rs[k]) by {
        assert(row_has_src(cols@, rows@[k]@, scratch@));
        let j = choose|j: int| 0 <= j < scratch@.len() && row_ok(cols@, rows@[k]@, #[trigger] scratch@[j]);
        assert(rs[k] == scratch@[j]);
    }
}

pub open spec fn elems_ok(v: Seq<Expression>, ids: Ids) -> bool {
    forall|j: int| 0 <= j < v.len() ==> solvable(#[trigger] v[j]) && wf(v[j], ids) && blocks_closed(v[j])
}

// ---- well-formedness of the matrix built from well-formed disjuncts (C03)
pub open spec fn cell_wf(cell: Expression, ids: Ids, width: nat) -> bool {
    solvable(cell) && wf(cell, ids) && !has_ident(cell) && cell_keys_ok(cell, ids, width)
}

pub proof fn lemma_row_wf(cols: Seq<String>, row: Seq<Option<Expression>>, s: Expression, ids: Ids)
    requires row_ok(cols, row, s), wf(s, ids), blocks_closed(s),
    ensures
        row.len() == cols.len(),
        forall|b: int| 0 <= b < row.len() && (#[trigger] row[b]) is Some ==> cell_wf(row[b]->Some_0, ids, cols.len() as nat),
{
    reveal(row_ok);
    let cj = conj(s);
    assert forall|c: int| 0 <= c < cj.len() implies wf(#[trigger] cj[c], ids) && blocks_closed(cj[c]) by {}
    assert forall|b: int| 0 <= b < row.len() && (#[trigger] row[b]) is Some implies cell_wf(row[b]->Some_0, ids, cols.len() as nat) by {
        let c = choose|c: int| 0 <= c < cj.len() && #[trigger] is_rekey(row[b]->Some_0, cj[c], b) && elem_field(cj[c]) == Some(cols[b]);
        assert(wf(cj[c], ids) && blocks_closed(cj[c]));
        lemma_cell_wf(row[b]->Some_0, cj[c], b, ids, cols.len() as nat);
    }
}

pub proof fn lemma_matrix_wf(scratch: Vec<Expression>, cols: Vec<String>, rows: Vec<Vec<Option<Expression>>>, rest: Seq<Expression>, ids: Ids)
    requires
        elems_ok(scratch@, ids),
        mx_inv(cols@, rows@, rest, scratch@),
    ensures
        wf(Expression::Matrix(cols, rows), ids),
        elems_ok(rest, ids),
{
    lemma_row_srcs(cols, rows, rest, scratch);
    let rs = row_srcs(cols, rows, scratch);
    assert forall|a: int| 0 <= a < rows.len() implies (#[trigger] rows[a]).len() == cols.len()
        && forall|b: int| 0 <= b < rows[a].len() && (#[trigger] rows[a][b]) is Some ==> cell_wf(rows[a][b]->Some_0, ids, cols.len() as nat) by {
        let s = rs[a];
        assert(row_ok(cols@, rows@[a]@, s));
        assert(scratch@.contains(s));
        let j = choose|j: int| 0 <= j < scratch@.len() && scratch@[j] == s;
        assert(wf(scratch@[j], ids) && blocks_closed(scratch@[j]));
        lemma_row_wf(cols@, rows@[a]@, s, ids);
        assert forall|b: int| 0 <= b < rows[a].len() && (#[trigger] rows[a][b]) is Some implies cell_wf(rows[a][b]->Some_0, ids, cols.len() as nat) by {
            assert(rows@[a]@[b] is Some);
        }
    }
    assert(wf(Expression::Matrix(cols, rows), ids)) by {
        assert forall|a: int, b: int| 0 <= a < rows.len() && 0 <= b < rows[a].len() implies
            rows[a].len() == cols.len()
            && ((#[trigger] rows[a][b]) is Some ==> solvable(rows[a][b]->Some_0) && wf(rows[a][b]->Some_0, ids) && !has_ident(rows[a][b]->Some_0)
                && cell_keys_ok(rows[a][b]->Some_0, ids, cols.len() as nat)) by {
            assert(rows[a].len() == cols.len());
            if rows[a][b] is Some { assert(cell_wf(rows[a][b]->Some_0, ids, cols.len() as nat)); }
        }
    }
    assert forall|k: int| 0 <= k < rest.len() implies solvable(#[trigger] rest[k]) && wf(rest[k], ids) && blocks_closed(rest[k]) by {
        assert(scratch@.contains(rest[k]));
        let j = choose|j: int| 0 <= j < scratch@.len() && scratch@[j] == rest[k];
        assert(solvable(scratch@[j]));
    }
}

// ---- truth of what the two passes build, for one document (C01)
pub proof fn lemma_matrix_truth(scratch: Vec<Expression>, cols: Vec<String>, rows: Vec<Vec<Option<Expression>>>, rest: Seq<Expression>, ev: Vec<Expression>, ids: Ids, d: DocM)
    requires
        mx_inv(cols@, rows@, rest, scratch@),
        ev@ =~= (if rows@.len() > 0 { seq![Expression::Matrix(cols, rows)] } else { Seq::<Expression>::empty() }) + rest,
    ensures
        (exists|i: int| 0 <= i < ev@.len() && tr(#[trigger] ev@[i], ids, d)) <==> (exists|j: int| 0 <= j < scratch@.len() && tr(#[trigger] scratch@[j], ids, d)),
{
    let m = Expression::Matrix(cols, rows);
    let off: int = if rows@.len() > 0 { 1 } else { 0 };
    lemma_row_srcs(cols, rows, rest, scratch);
    let rs = row_srcs(cols, rows, scratch);
    lemma_matrix_sem(cols, rows, rs, ids, d);
    let some_ev = exists|i: int| 0 <= i < ev@.len() && tr(#[trigger] ev@[i], ids, d);
    let some_sc = exists|j: int| 0 <= j < scratch@.len() && tr(#[trigger] scratch@[j], ids, d);
    if some_ev {
        let i = choose|i: int| 0 <= i < ev@.len() && tr(#[trigger] ev@[i], ids, d);
        if i < off {
            assert(ev@[i] == m);
            let k = choose|k: int| 0 <= k < rs.len() && tr(#[trigger] rs[k], ids, d);
            assert(scratch@.contains(rs[k]));
            let j = choose|j: int| 0 <= j < scratch@.len() && scratch@[j] == rs[k];
            assert(tr(scratch@[j], ids, d));
        } else {
            assert(ev@[i] == rest[i - off]);
            assert(scratch@.contains(rest[i - off]));
            let j = choose|j: int| 0 <= j < scratch@.len() && scratch@[j] == rest[i - off];
            assert(tr(scratch@[j], ids, d));
        }
        assert(some_sc);
    }
    if some_sc {
        let j = choose|j: int| 0 <= j < scratch@.len() && tr(#[trigger] scratch@[j], ids, d);
        assert(placed(cols@, rows@, rest, scratch@[j]));
        if exists|k: int| 0 <= k < rows@.len() && row_ok(cols@, (#[trigger] rows@[k])@, scratch@[j]) {
            let k = choose|k: int| 0 <= k < rows@.len() && row_ok(cols@, (#[trigger] rows@[k])@, scratch@[j]);
            // row k stands for rs[k] and for scratch[j]: each is true exactly when the row is
            let c0 = empty_cache(cols.len() as nat);
            lemma_matrix_defined(cols, rows);
            assert(cells_defined(m, rows@[k])) by {
                assert forall|q: int| 0 <= q < rows@[k].len() && (#[trigger] rows@[k][q]) is Some implies decreases_to!(m => rows@[k][q]->Some_0) && lvl(rows@[k][q]->Some_0) <= lvl(m) by {
                    assert(rows[k][q] is Some);
                }
            }
            assert(coherent(c0, cols@, d));
            lemma_row_sem(cols, rows@[k], scratch@[j], c0, ids, d, m);
            lemma_row_sem(cols, rows@[k], rs[k], c0, ids, d, m);
            assert(tr(rs[k], ids, d));
            assert(tr(m, ids, d));
            assert(ev@[0] == m);
            assert(tr(ev@[0], ids, d));
        } else {
            assert(rest.contains(scratch@[j]));
            let k = choose|k: int| 0 <= k < rest.len() && rest[k] == scratch@[j];
            assert(ev@[k + off] == rest[k]);
            assert(tr(ev@[k + off], ids, d));
        }
        assert(some_ev);
    }
}

// identifiers: a matrix cell never holds one, the other operands are optimised operands
pub proof fn lemma_or_arm_ident(g0: Vec<Expression>, scratch: Vec<Expression>, cols: Vec<String>, rows: Vec<Vec<Option<Expression>>>, rest: Seq<Expression>, ev: Vec<Expression>, ids: Ids)
    requires
        mx_pre(Expression::BooleanGroup(BoolSym::Or, g0), ids),
        scratch@.len() == g0@.len(),
        forall|j: int| 0 <= j < g0@.len() ==> mx_post(#[trigger] scratch@[j], g0@[j], ids),
        mx_inv(cols@, rows@, rest, scratch@),
        ev@ =~= (if rows@.len() > 0 { seq![Expression::Matrix(cols, rows)] } else { Seq::<Expression>::empty() }) + rest,
    ensures
        !has_ident(Expression::BooleanGroup(BoolSym::Or, g0)) ==> !has_ident(mx_result(cols, rows, ev)),
{
    let e0 = Expression::BooleanGroup(BoolSym::Or, g0);
    let m = Expression::Matrix(cols, rows);
    let res = mx_result(cols, rows, ev);
    let off: int = if rows@.len() > 0 { 1 } else { 0 };
    reveal(mx_post);
    if !has_ident(e0) {
        assert(e0->BooleanGroup_1 == g0);
        assert forall|j: int| 0 <= j < g0.len() implies !has_ident(#[trigger] g0[j]) by {
            if has_ident(g0[j]) { lemma_has_ident_elem(BoolSym::Or, g0, j); }
        }
        assert(elems_ok(scratch@, ids)) by {
            assert forall|j: int| 0 <= j < scratch@.len() implies solvable(#[trigger] scratch@[j]) && wf(scratch@[j], ids) && blocks_closed(scratch@[j]) by {
                assert(mx_post(scratch@[j], g0@[j], ids));
                assert(solvable(g0[j]));
            }
        }
        lemma_matrix_wf(scratch, cols, rows, rest, ids);
        lemma_row_srcs(cols, rows, rest, scratch);
        assert(!has_ident(m)) by {
            assert(m->Matrix_1 == rows);
            if has_ident(m) {
                let (j, i) = choose|j: int, i: int| 0 <= j < rows.len() && 0 <= i < rows[j].len() && (#[trigger] rows[j][i]) is Some && has_ident(rows[j][i]->Some_0);
                assert(!has_ident(rows[j][i]->Some_0));
            }
        }
        assert forall|i: int| 0 <= i < ev.len() implies !has_ident(#[trigger] ev[i]) by {
            if i < off { assert(ev@[i] == m); } else {
                assert(ev@[i] == rest[i - off]);
                assert(scratch@.contains(rest[i - off]));
                let j = choose|j: int| 0 <= j < scratch@.len() && scratch@[j] == rest[i - off];
                assert(mx_post(scratch@[j], g0@[j], ids));
                assert(!has_ident(g0[j]));
            }
        }
        if ev.len() != 1 {
            let r2 = Expression::BooleanGroup(BoolSym::Or, ev);
            assert(r2->BooleanGroup_1 == ev);
            if has_ident(r2) {
                let i = choose|i: int| 0 <= i < ev.len() && has_ident(#[trigger] ev[i]);
                assert(false);
            }
        }
    }
}

// a bare all()/of() comes out of the or-arm only if one went in
pub proof fn lemma_or_arm_head(g0: Vec<Expression>, scratch: Vec<Expression>, cols: Vec<String>, rows: Vec<Vec<Option<Expression>>>, rest: Seq<Expression>, ev: Vec<Expression>)
    requires
        scratch@.len() == g0@.len(),
        forall|j: int| 0 <= j < g0@.len() && (#[trigger] scratch@[j]) is Match ==> has_match_head(g0@[j]),
        mx_inv(cols@, rows@, rest, scratch@),
        ev@ =~= (if rows@.len() > 0 { seq![Expression::Matrix(cols, rows)] } else { Seq::<Expression>::empty() }) + rest,
    ensures
        mx_result(cols, rows, ev) is Match ==> has_match_head(Expression::BooleanGroup(BoolSym::Or, g0)),
{
    let e0 = Expression::BooleanGroup(BoolSym::Or, g0);
    let res = mx_result(cols, rows, ev);
    lemma_row_srcs(cols, rows, rest, scratch);
    if res is Match {
        assert(ev.len() == 1 && res == ev@[0]);
        if rows@.len() > 0 { assert(ev@[0] == Expression::Matrix(cols, rows)); }
        assert(ev@[0] == rest[0]);
        assert(scratch@.contains(rest[0]));
        let j = choose|j: int| 0 <= j < scratch@.len() && scratch@[j] == rest[0];
        assert(has_match_head(g0@[j]));
        assert(e0->BooleanGroup_1 == g0);
        assert(has_match_head(g0[j]));
    }
}

// the or-arm: what the two passes build means what the or-group means
pub proof fn lemma_or_arm(g0: Vec<Expression>, scratch: Vec<Expression>, cols: Vec<String>, rows: Vec<Vec<Option<Expression>>>, rest: Seq<Expression>, ev: Vec<Expression>, ids: Ids)
    requires
        mx_pre(Expression::BooleanGroup(BoolSym::Or, g0), ids),
        scratch@.len() == g0@.len(),
        forall|j: int| 0 <= j < g0@.len() ==> mx_post(#[trigger] scratch@[j], g0@[j], ids),
        mx_inv(cols@, rows@, rest, scratch@),
        ev@ =~= (if rows@.len() > 0 { seq![Expression::Matrix(cols, rows)] } else { Seq::<Expression>::empty() }) + rest,
    ensures
        mx_post(mx_result(cols, rows, ev), Expression::BooleanGroup(BoolSym::Or, g0), ids),
{
    lemma_or_arm_ident(g0, scratch, cols, rows, rest, ev, ids);
    let e0 = Expression::BooleanGroup(BoolSym::Or, g0);
    let m = Expression::Matrix(cols, rows);
    let res = mx_result(cols, rows, ev);
    let off: int = if rows@.len() > 0 { 1 } else { 0 };
    reveal(mx_post);
    assert(wf(e0, ids));
    assert(blocks_closed(e0));
    assert(e0->BooleanGroup_1 == g0);
    assert forall|j: int| 0 <= j < g0.len() implies wf(#[trigger] g0[j], ids) by {}
    assert forall|j: int| 0 <= j < g0.len() implies solvable(#[trigger] g0[j]) by {}
    assert forall|j: int| 0 <= j < g0.len() implies blocks_closed(#[trigger] g0[j]) by {}
    assert(elems_ok(scratch@, ids)) by {
        assert forall|j: int| 0 <= j < scratch@.len() implies solvable(#[trigger] scratch@[j]) && wf(scratch@[j], ids) && blocks_closed(scratch@[j]) by {
            assert(mx_post(scratch@[j], g0@[j], ids));
            assert(solvable(g0[j]));
        }
    }
    lemma_matrix_wf(scratch, cols, rows, rest, ids);
    assert forall|i: int| 0 <= i < ev.len() implies solvable(#[trigger] ev[i]) && wf(ev[i], ids) && blocks_closed(ev[i]) by {
        if i < off { assert(ev@[i] == m); } else { assert(ev@[i] == rest[i - off]); }
    }
    assert(solvable(res) && wf(res, ids) && blocks_closed(res));
    assert(solvable(e0));
    if neg_safe(e0) {
        assert forall|d: DocM| #[trigger] tr(res, ids, d) == tr(e0, ids, d) by {
            lemma_or_true(g0, ids, d);
            lemma_or_true(ev, ids, d);
            lemma_matrix_truth(scratch, cols, rows, rest, ev, ids, d);
            let some_ev = exists|i: int| 0 <= i < ev@.len() && tr(#[trigger] ev@[i], ids, d);
            let some_sc = exists|j: int| 0 <= j < scratch@.len() && tr(#[trigger] scratch@[j], ids, d);
            let some_g0 = exists|j: int| 0 <= j < g0.len() && tr(#[trigger] g0[j], ids, d);
            assert(tr(res, ids, d) == some_ev) by {
                if ev.len() == 1 {
                    if tr(ev@[0], ids, d) { assert(some_ev); }
                    if some_ev { let i = choose|i: int| 0 <= i < ev@.len() && tr(#[trigger] ev@[i], ids, d); assert(i == 0); }
                } else {
                    if some_ev { let i = choose|i: int| 0 <= i < ev@.len() && tr(#[trigger] ev@[i], ids, d); assert(tr(ev[i], ids, d)); }
                    if exists|i: int| 0 <= i < ev.len() && tr(#[trigger] ev[i], ids, d) {
                        let i = choose|i: int| 0 <= i < ev.len() && tr(#[trigger] ev[i], ids, d); assert(tr(ev@[i], ids, d));
                    }
                }
            }
            assert(tr(e0, ids, d) == some_g0);
            if some_sc {
                let j = choose|j: int| 0 <= j < scratch@.len() && tr(#[trigger] scratch@[j], ids, d);
                assert(mx_post(scratch@[j], g0@[j], ids));
                assert(neg_safe(g0[j]));
                assert(tr(scratch@[j], ids, d) == tr(g0@[j], ids, d));
                assert(tr(g0[j], ids, d));
            }
            if some_g0 {
                let j = choose|j: int| 0 <= j < g0.len() && tr(#[trigger] g0[j], ids, d);
                assert(mx_post(scratch@[j], g0@[j], ids));
                assert(neg_safe(g0[j]));
                assert(tr(scratch@[j], ids, d) == tr(g0@[j], ids, d));
                assert(tr(scratch@[j], ids, d));
            }
        }
    }
}

// ---- spec/closed_defs.rs: the token-level and the tree-level statement of 'every identifier exists' (shared by the scan and front units)
pub open spec fn tok_checked(ts: Seq<Token>, i: int) -> bool {
    0 <= i < ts.len() && ts[i] is Identifier && !(i > 1 && ts[i - 2] is Modifier)
}
// what the scan establishes when it accepts (names = the keys of the detection block)
pub open spec fn scanned(ts: Seq<Token>, names: Set<String>) -> bool {
    forall|i: int| #[trigger] tok_checked(ts, i) ==> names.contains(ts[i]->Identifier_0)
}
pub open spec fn closed_in(e: Expression, names: Set<String>) -> bool
    decreases e,
{
    match e {
        Expression::BooleanExpression(l, _, r) => closed_in(*l, names) && closed_in(*r, names),
        Expression::Negate(x) => closed_in(*x, names),
        Expression::Match(_, x) => closed_in(*x, names),
        Expression::Identifier(i) => names.contains(i),
        _ => true,
    }
}


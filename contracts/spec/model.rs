// ---- spec/model.rs: ghost model of values and documents (lifetime-free, first order)

pub ghost struct ArrM(pub int);   // identity of an array value
pub ghost struct ObjM(pub int);   // identity of an object value
pub ghost struct DynM(pub int);   // identity of a user document

pub ghost enum V {
    Null,
    Bool(bool),
    Float(f64),
    Int(i64),
    UInt(u64),
    Str(Seq<char>),
    Array(ArrM),
    Object(ObjM),
}

pub uninterp spec fn arr_m(a: &dyn Array) -> ArrM;
pub uninterp spec fn obj_m(o: &dyn Object) -> ObjM;
pub uninterp spec fn arr_elems(a: ArrM) -> Seq<V>;                      // what Array::iter yields, in order
pub uninterp spec fn obj_find(o: ObjM, key: Seq<char>) -> Option<V>;     // Object::find (path lookup)
pub uninterp spec fn obj_get(o: ObjM, key: Seq<char>) -> Option<V>;      // Object::get (one step)
pub uninterp spec fn dyn_find(d: DynM, key: Seq<char>) -> Option<V>;     // a user Document::find
pub uninterp spec fn dyn_permits(d: DynM, key: Seq<char>) -> bool;       // keys the user document may be asked



impl View for Value<'_> {
    type V = V;
    open spec fn view(&self) -> V {
        match *self {
            Value::Null => V::Null,
            Value::Bool(b) => V::Bool(b),
            Value::Float(f) => V::Float(f),
            Value::Int(i) => V::Int(i),
            Value::UInt(u) => V::UInt(u),
            Value::String(s) => V::Str(cow_view(s)),
            Value::Array(a) => V::Array(arr_m(a)),
            Value::Object(o) => V::Object(obj_m(o)),
        }
    }
}

pub open spec fn cache_view(c: Seq<Option<Value<'_>>>) -> Seq<Option<V>> {
    Seq::new(c.len(), |i: int| optv(c[i]))
}

pub open spec fn optv(o: Option<Value<'_>>) -> Option<V> {
    match o { Some(v) => Some(v@), None => None }
}

// Document models: the user's document, a nested object, and the two private documents of the solver.
pub ghost enum DocM {
    Dyn(DynM),
    Obj(ObjM),
    Cache(Seq<Option<V>>),
    Pass(Option<V>),
}

pub open spec fn cache_index(key: Seq<char>) -> int { key[0] as u32 as int }

pub open spec fn dm_permits(d: DocM, key: Seq<char>) -> bool {
    match d {
        DocM::Dyn(u) => dyn_permits(u, key),
        DocM::Obj(_) => true,
        DocM::Cache(c) => key.len() > 0 && cache_index(key) < c.len(),
        DocM::Pass(_) => true,
    }
}

pub open spec fn dm_find(d: DocM, key: Seq<char>) -> Option<V> {
    match d {
        DocM::Dyn(u) => dyn_find(u, key),
        DocM::Obj(o) => obj_find(o, key),
        DocM::Cache(c) => if key.len() > 0 && cache_index(key) < c.len() { c[cache_index(key)] } else { None },
        DocM::Pass(v) => v,
    }
}

// ---- spec/shake1.rs: what shake_1 does OUTSIDE its and- / or-group arms (those are holes; two blocks of them are verified
// as slices in unit batch): every other node keeps its shape - a nested block stays a nested block on the same key, a
// negation a negation, a quantifier a quantifier of the same kind, leaves are untouched - and its children are shaken.
pub open spec fn s1_rel(r: Expression, e: Expression) -> bool
    decreases e,
{
    match e {
        Expression::BooleanGroup(sym, g) =>
            if sym == BoolSym::And || sym == BoolSym::Or { true }
            else { r is BooleanGroup && r->BooleanGroup_0 == sym && r->BooleanGroup_1.len() == g.len()
                   && forall|i: int| 0 <= i < g.len() ==> s1_rel(r->BooleanGroup_1[i], #[trigger] g[i]) },
        Expression::BooleanExpression(l, s, x) => r is BooleanExpression && r->BooleanExpression_1 == s
            && s1_rel(*r->BooleanExpression_0, *l) && s1_rel(*r->BooleanExpression_2, *x),
        Expression::Match(k, x) => r is Match && r->Match_0 == k && (match *x {
            Expression::BooleanGroup(sym, g) => (*r->Match_1) is BooleanGroup && (*r->Match_1)->BooleanGroup_0 == sym
                && (*r->Match_1)->BooleanGroup_1.len() == g.len()
                && forall|i: int| 0 <= i < g.len() ==> s1_rel((*r->Match_1)->BooleanGroup_1[i], #[trigger] g[i]),
            _ => s1_rel(*r->Match_1, *x),
        }),
        Expression::Negate(x) => r is Negate && s1_rel(*r->Negate_0, *x),
        Expression::Nested(f, x) => r is Nested && r->Nested_0 == f && s1_rel(*r->Nested_1, *x),   // a nested block is never folded into a dotted key
        _ => r == e,
    }
}

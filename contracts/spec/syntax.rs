// ---- spec/syntax.rs: what the condition parser must establish (C03), and the grammar facts (C05)

// the node kinds the condition parser can produce at all
pub open spec fn parser_shape(e: Expression) -> bool {
    e is BooleanExpression || e is Cast || e is Float || e is Identifier || e is Integer || e is Match || e is Negate
}

// operands of a comparison are terms (casts and literals), never predicates
pub open spec fn cmp_operand(e: Expression) -> bool {
    e is Boolean || e is Cast || e is Float || e is Integer
}

// Every operand of and/or/not is itself a predicate; all()/of() name an identifier (C03).
pub open spec fn wf_syntax(e: Expression) -> bool
    decreases e,
{
    match e {
        Expression::BooleanExpression(l, op, r) =>
            if is_cmp(op) { cmp_operand(*l) && cmp_operand(*r) }
            else { (op == BoolSym::And || op == BoolSym::Or) && solvable(*l) && solvable(*r) && wf_syntax(*l) && wf_syntax(*r) },
        Expression::Negate(x) => solvable(*x) && wf_syntax(*x),
        Expression::Match(_, x) => *x is Identifier,
        Expression::Cast(_, _) | Expression::Float(_) | Expression::Identifier(_) | Expression::Integer(_) => true,
        // the condition parser never produces the remaining node kinds
        _ => false,
    }
}


// ---- spec/frame.rs: the verdict depends on a document only through the keys the rule asks for (C16)
//
// asks(e, ids, k) is the set of keys evaluation may pass to find() (proved of the real solver: every find call site is
// guarded by the precondition dm_permits).  Here: two documents that answer those keys alike get the same result, so
// adding, removing or altering any other field cannot change a verdict.  (frame_ok only excludes malformed trees:
// it follows the same recursion as sem3.)

pub open spec fn agree(e: Expression, ids: Ids, d1: DocM, d2: DocM) -> bool {
    forall|k: Seq<char>| #[trigger] asks(e, ids, k) ==> dm_find(d1, k) == dm_find(d2, k)
}

// no all()/of() applied directly to a Matrix (possibly through an identifier)
pub open spec fn frame_ok(e: Expression, ids: Ids) -> bool
    decreases lvl(e), e,
    via frame_ok_decreases
{
    match e {
        Expression::BooleanGroup(_, g) => forall|i: int| 0 <= i < g.len() ==> frame_ok(#[trigger] g[i], ids),
        Expression::BooleanExpression(l, op, r) => is_cmp(op) || (frame_ok(*l, ids) && frame_ok(*r, ids)),
        Expression::Identifier(i) => ids.contains_key(i) && !has_ident(ids[i]) ==> frame_ok(ids[i], ids),
        Expression::Match(_, x) => frame_ok(*x, ids),
        Expression::Negate(x) => frame_ok(*x, ids),
        _ => true,
    }
}

#[via_fn]
proof fn frame_ok_decreases(e: Expression, ids: Ids) {
    reveal_with_fuel(has_ident, 3);
}

pub open spec fn cols_agree(cols: Vec<String>, d1: DocM, d2: DocM) -> bool {
    forall|i: int| 0 <= i < cols.len() ==> dm_find(d1, (#[trigger] cols[i])@) == dm_find(d2, cols[i]@)
}

pub proof fn lemma_frame_row(cols: Vec<String>, row: Vec<Option<Expression>>, i: int, cache: Seq<Option<V>>, ids: Ids, d1: DocM, d2: DocM, parent: Expression)
    requires cols_agree(cols, d1, d2), cells_defined_f(parent, row),
    ensures row_eval(cols, row, i, cache, ids, d1, parent) == row_eval(cols, row, i, cache, ids, d2, parent),
    decreases row.len() - i,
{
    if !(i < 0 || i >= row.len() || i >= cache.len() || i >= cols.len()) {
        match row[i] {
            None => { lemma_frame_row(cols, row, i + 1, cache, ids, d1, d2, parent); },
            Some(cell) => {
                assert(dm_find(d1, cols[i]@) == dm_find(d2, cols[i]@));
                let c2 = if cache[i] is None {
                    match dm_find(d1, cols[i]@) { Some(v) => Some(cache.update(i, Some(v))), None => None }
                } else { Some(cache) };
                if c2 is Some {
                    let c = c2->Some_0;
                    if sem3(cell, ids, DocM::Cache(c)) == SolverResult::True {
                        lemma_frame_row(cols, row, i + 1, c, ids, d1, d2, parent);
                    }
                }
            },
        }
    }
}

pub open spec fn cells_defined_f(parent: Expression, row: Vec<Option<Expression>>) -> bool {
    forall|k: int| 0 <= k < row.len() && (#[trigger] row[k]) is Some ==> decreases_to!(parent => row[k]->Some_0) && lvl(row[k]->Some_0) <= lvl(parent)
}
pub open spec fn rows_defined_f(parent: Expression, rows: Vec<Vec<Option<Expression>>>) -> bool {
    forall|a: int, b: int| 0 <= a < rows.len() && 0 <= b < rows[a].len() && (#[trigger] rows[a][b]) is Some
        ==> decreases_to!(parent => rows[a][b]->Some_0) && lvl(rows[a][b]->Some_0) <= lvl(parent)
}

pub proof fn lemma_frame_rows(cols: Vec<String>, rows: Vec<Vec<Option<Expression>>>, j: int, cache: Seq<Option<V>>, acc: SolverResult, ids: Ids, d1: DocM, d2: DocM, parent: Expression)
    requires cols_agree(cols, d1, d2), rows_defined_f(parent, rows),
    ensures rows_eval(cols, rows, j, cache, acc, ids, d1, parent) == rows_eval(cols, rows, j, cache, acc, ids, d2, parent),
    decreases rows.len() - j,
{
    if !(j < 0 || j >= rows.len()) {
        assert(cells_defined_f(parent, rows[j])) by {
            assert forall|k: int| 0 <= k < rows[j].len() && (#[trigger] rows[j][k]) is Some implies decreases_to!(parent => rows[j][k]->Some_0) && lvl(rows[j][k]->Some_0) <= lvl(parent) by {}
        }
        lemma_frame_row(cols, rows[j], 0, cache, ids, d1, d2, parent);
        let (hit, c2) = row_eval(cols, rows[j], 0, cache, ids, d1, parent);
        match hit {
            SolverResult::True => {},
            SolverResult::False => { lemma_frame_rows(cols, rows, j + 1, c2, SolverResult::False, ids, d1, d2, parent); },
            SolverResult::Missing => { lemma_frame_rows(cols, rows, j + 1, c2, acc, ids, d1, d2, parent); },
        }
    }
}

pub proof fn lemma_frame_rows_all(cols: Vec<String>, rows: Vec<Vec<Option<Expression>>>, j: int, cache: Seq<Option<V>>, ids: Ids, d1: DocM, d2: DocM, parent: Expression)
    requires cols_agree(cols, d1, d2), rows_defined_f(parent, rows),
    ensures rows_all_eval(cols, rows, j, cache, ids, d1, parent) == rows_all_eval(cols, rows, j, cache, ids, d2, parent),
    decreases rows.len() - j,
{
    if !(j < 0 || j >= rows.len()) {
        assert(cells_defined_f(parent, rows[j])) by {
            assert forall|k: int| 0 <= k < rows[j].len() && (#[trigger] rows[j][k]) is Some implies decreases_to!(parent => rows[j][k]->Some_0) && lvl(rows[j][k]->Some_0) <= lvl(parent) by {}
        }
        lemma_frame_row(cols, rows[j], 0, cache, ids, d1, d2, parent);
        let (hit, c2) = row_eval(cols, rows[j], 0, cache, ids, d1, parent);
        if hit == SolverResult::True { lemma_frame_rows_all(cols, rows, j + 1, c2, ids, d1, d2, parent); }
    }
}

pub proof fn lemma_frame_rows_of(cols: Vec<String>, rows: Vec<Vec<Option<Expression>>>, j: int, cache: Seq<Option<V>>, hits: nat, acc: SolverResult, n: u64, ids: Ids, d1: DocM, d2: DocM, parent: Expression)
    requires cols_agree(cols, d1, d2), rows_defined_f(parent, rows),
    ensures rows_of_eval(cols, rows, j, cache, hits, acc, n, ids, d1, parent) == rows_of_eval(cols, rows, j, cache, hits, acc, n, ids, d2, parent),
    decreases rows.len() - j,
{
    if !(j < 0 || j >= rows.len()) {
        assert(cells_defined_f(parent, rows[j])) by {
            assert forall|k: int| 0 <= k < rows[j].len() && (#[trigger] rows[j][k]) is Some implies decreases_to!(parent => rows[j][k]->Some_0) && lvl(rows[j][k]->Some_0) <= lvl(parent) by {}
        }
        lemma_frame_row(cols, rows[j], 0, cache, ids, d1, d2, parent);
        let (hit, c2) = row_eval(cols, rows[j], 0, cache, ids, d1, parent);
        match hit {
            SolverResult::True => { if !(hits + 1 >= n) { lemma_frame_rows_of(cols, rows, j + 1, c2, hits + 1, acc, n, ids, d1, d2, parent); } },
            SolverResult::False => { lemma_frame_rows_of(cols, rows, j + 1, c2, hits, SolverResult::False, n, ids, d1, d2, parent); },
            SolverResult::Missing => { lemma_frame_rows_of(cols, rows, j + 1, c2, hits, acc, n, ids, d1, d2, parent); },
        }
    }
}

pub proof fn lemma_frame_defined(cols: Vec<String>, rows: Vec<Vec<Option<Expression>>>)
    ensures rows_defined_f(Expression::Matrix(cols, rows), rows),
{
    let e = Expression::Matrix(cols, rows);
    assert forall|a: int, b: int| 0 <= a < rows.len() && 0 <= b < rows[a].len() && (#[trigger] rows[a][b]) is Some
        implies decreases_to!(e => rows[a][b]->Some_0) && lvl(rows[a][b]->Some_0) <= lvl(e) by {
        assert(e->Matrix_1 == rows);
        if has_ident(rows[a][b]->Some_0) {
            assert(has_ident(e) == (exists|j: int, i: int|
                0 <= j < rows.len() && 0 <= i < rows[j].len() && (#[trigger] rows[j][i]) is Some && has_ident(rows[j][i]->Some_0)));
        }
    }
}

// leaves of all()/of(): a search (merged or not) on one field, or a Matrix
pub proof fn lemma_frame_leaf(t: Expression, m: Match, ids: Ids, d1: DocM, d2: DocM)
    requires
        agree(t, ids, d1, d2), !(t is BooleanGroup), !(t is Identifier),
        sem3(t, ids, d1) == sem3(t, ids, d2),
    ensures
        sem_all_leaf(t, ids, d1) == sem_all_leaf(t, ids, d2),
        forall|n: u64| #[trigger] sem_of_leaf(t, n, ids, d1) == sem_of_leaf(t, n, ids, d2),
{
    match t {
        Expression::Search(kind, f, cast) => {
            assert(asks(t, ids, f@));
            assert(dm_find(d1, f@) == dm_find(d2, f@));
        },
        Expression::Matrix(cols, rows) => {
            assert(cols_agree(cols, d1, d2)) by {
                assert forall|i: int| 0 <= i < cols.len() implies dm_find(d1, (#[trigger] cols[i])@) == dm_find(d2, cols[i]@) by { assert(asks(t, ids, cols[i]@)); }
            }
            lemma_frame_defined(cols, rows);
            let c0 = empty_cache(cols.len() as nat);
            lemma_frame_rows_all(cols, rows, 0, c0, ids, d1, d2, t);
            assert forall|n: u64| #[trigger] sem_of_leaf(t, n, ids, d1) == sem_of_leaf(t, n, ids, d2) by {
                lemma_frame_rows_of(cols, rows, 0, c0, 0, SolverResult::Missing, n, ids, d1, d2, t);
            }
        },
        _ => {},
    }
}

// the elements of a group agree / are frame_ok when the group is
pub proof fn lemma_frame_elems(op: BoolSym, g: Vec<Expression>, ids: Ids, d1: DocM, d2: DocM)
    requires
        agree(Expression::BooleanGroup(op, g), ids, d1, d2),
        forall|i: int| 0 <= i < g.len() ==> sem3(#[trigger] g[i], ids, d1) == sem3(g[i], ids, d2),
    ensures
        sems(g, ids, d1, Expression::BooleanGroup(op, g)) =~= sems(g, ids, d2, Expression::BooleanGroup(op, g)),
{
    lemma_sems_defined(op, g, ids, d1);
    lemma_sems_defined(op, g, ids, d2);
}

pub proof fn lemma_agree_elem(op: BoolSym, g: Vec<Expression>, i: int, ids: Ids, d1: DocM, d2: DocM)
    requires agree(Expression::BooleanGroup(op, g), ids, d1, d2), 0 <= i < g.len(),
    ensures agree(g[i], ids, d1, d2), lvl(g[i]) <= lvl(Expression::BooleanGroup(op, g)),
{
    let e = Expression::BooleanGroup(op, g);
    if has_ident(g[i]) { lemma_has_ident_elem(op, g, i); }
    assert(e->BooleanGroup_1 == g);
    assert forall|k: Seq<char>| #[trigger] asks(g[i], ids, k) implies dm_find(d1, k) == dm_find(d2, k) by {
        assert(asks(e, ids, k) == (exists|j: int| 0 <= j < g.len() && asks(#[trigger] g[j], ids, k)));
        assert(asks(e, ids, k));
    }
}

pub proof fn lemma_frame(e: Expression, ids: Ids, d1: DocM, d2: DocM)
    requires agree(e, ids, d1, d2), frame_ok(e, ids),
    ensures sem3(e, ids, d1) == sem3(e, ids, d2),   // P:C16
    decreases lvl(e), e, 1int,
{
    match e {
        Expression::BooleanGroup(op, g) => {
            if op == BoolSym::And || op == BoolSym::Or { lemma_frame_group(op, g, ids, d1, d2); }
        },
        Expression::BooleanExpression(l, op, r) => {
            if op == BoolSym::And || op == BoolSym::Or {
                reveal_with_fuel(has_ident, 2);
                assert(agree(*l, ids, d1, d2)) by { assert forall|k: Seq<char>| #[trigger] asks(*l, ids, k) implies dm_find(d1, k) == dm_find(d2, k) by { assert(asks(e, ids, k)); } }
                assert(agree(*r, ids, d1, d2)) by { assert forall|k: Seq<char>| #[trigger] asks(*r, ids, k) implies dm_find(d1, k) == dm_find(d2, k) by { assert(asks(e, ids, k)); } }
                lemma_frame(*l, ids, d1, d2);
                lemma_frame(*r, ids, d1, d2);
            } else {
                assert(is_cmp(op));
                assert forall|k: Seq<char>| (operand_key(*l) == Some(k) || operand_key(*r) == Some(k)) implies dm_find(d1, k) == dm_find(d2, k) by { assert(asks(e, ids, k)); }
                lemma_frame_cmp(*l, op, *r, ids, d1, d2);
            }
        },
        Expression::Identifier(i) => {
            if ids.contains_key(i) && !has_ident(ids[i]) {
                reveal_with_fuel(has_ident, 2);
                assert(agree(ids[i], ids, d1, d2)) by { assert forall|k: Seq<char>| #[trigger] asks(ids[i], ids, k) implies dm_find(d1, k) == dm_find(d2, k) by { assert(asks(e, ids, k)); } }
                lemma_frame(ids[i], ids, d1, d2);
            }
        },
        Expression::Match(m, x) => { lemma_frame_match(m, *x, ids, d1, d2); },
        Expression::Matrix(cols, rows) => {
            assert(cols_agree(cols, d1, d2)) by {
                assert forall|i: int| 0 <= i < cols.len() implies dm_find(d1, (#[trigger] cols[i])@) == dm_find(d2, cols[i]@) by { assert(asks(e, ids, cols[i]@)); }
            }
            lemma_frame_defined(cols, rows);
            lemma_frame_rows(cols, rows, 0, empty_cache(cols.len() as nat), SolverResult::Missing, ids, d1, d2, e);
        },
        Expression::Negate(x) => {
            reveal_with_fuel(has_ident, 2);
            assert(agree(*x, ids, d1, d2)) by { assert forall|k: Seq<char>| #[trigger] asks(*x, ids, k) implies dm_find(d1, k) == dm_find(d2, k) by { assert(asks(e, ids, k)); } }
            lemma_frame(*x, ids, d1, d2);
        },
        Expression::Nested(f, x) => {
            assert(asks(e, ids, f@));
        },
        Expression::Search(kind, f, cast) => {
            assert(asks(e, ids, f@));
        },
        _ => {},
    }
}

pub proof fn lemma_frame_group(op: BoolSym, g: Vec<Expression>, ids: Ids, d1: DocM, d2: DocM)
    requires
        op == BoolSym::And || op == BoolSym::Or,
        agree(Expression::BooleanGroup(op, g), ids, d1, d2), frame_ok(Expression::BooleanGroup(op, g), ids),
    ensures
        sem3(Expression::BooleanGroup(op, g), ids, d1) == sem3(Expression::BooleanGroup(op, g), ids, d2),
        sems(g, ids, d1, Expression::BooleanGroup(op, g)) =~= sems(g, ids, d2, Expression::BooleanGroup(op, g)),
    decreases lvl(Expression::BooleanGroup(op, g)), Expression::BooleanGroup(op, g), 0int,
{
    let e = Expression::BooleanGroup(op, g);
    assert forall|i: int| 0 <= i < g.len() implies sem3(#[trigger] g[i], ids, d1) == sem3(g[i], ids, d2) by {
        lemma_agree_elem(op, g, i, ids, d1, d2);
        assert(frame_ok(g[i], ids));
        lemma_frame(g[i], ids, d1, d2);
    }
    lemma_frame_elems(op, g, ids, d1, d2);
}

pub proof fn lemma_frame_match(m: Match, x: Expression, ids: Ids, d1: DocM, d2: DocM)
    requires
        agree(Expression::Match(m, Box::new(x)), ids, d1, d2), frame_ok(Expression::Match(m, Box::new(x)), ids),
    ensures
        sem3(Expression::Match(m, Box::new(x)), ids, d1) == sem3(Expression::Match(m, Box::new(x)), ids, d2),
    decreases lvl(Expression::Match(m, Box::new(x))), Expression::Match(m, Box::new(x)), 0int,
{
    let e = Expression::Match(m, Box::new(x));
    reveal_with_fuel(has_ident, 3);
    reveal_with_fuel(frame_ok, 2);
    let t = match_target(x, ids);
    assert(agree(t, ids, d1, d2)) by {
        assert forall|k: Seq<char>| #[trigger] asks(t, ids, k) implies dm_find(d1, k) == dm_find(d2, k) by { assert(asks(x, ids, k)); assert(asks(e, ids, k)); }
    }
    assert(frame_ok(t, ids));
    assert(lvl(t) < lvl(e) || (t == x));
    match t {
        Expression::BooleanGroup(op, g) => {
            assert forall|i: int| 0 <= i < g.len() implies sem3(#[trigger] g[i], ids, d1) == sem3(g[i], ids, d2) by {
                lemma_agree_elem(op, g, i, ids, d1, d2);
                assert(frame_ok(g[i], ids));
                assert(lvl(g[i]) < lvl(e) || decreases_to!(e => g[i]));
                lemma_frame(g[i], ids, d1, d2);
            }
            lemma_frame_elems(op, g, ids, d1, d2);
            assert(t == Expression::BooleanGroup(op, g));
            assert(sems(g, ids, d1, t) =~= sems(g, ids, d2, t));
            assert(sem3(e, ids, d1) == (match m { Match::All => and3(sems(g, ids, d1, t)), Match::Of(n) => of3(sems(g, ids, d1, t), n) }));
            assert(sem3(e, ids, d2) == (match m { Match::All => and3(sems(g, ids, d2, t)), Match::Of(n) => of3(sems(g, ids, d2, t), n) }));
        },
        Expression::Identifier(_) => {
            assert(sem3(t, ids, d1) == SolverResult::Missing && sem3(t, ids, d2) == SolverResult::Missing);
            assert(sem3(e, ids, d1) == (match m { Match::All => sem_all_leaf(t, ids, d1), Match::Of(n) => sem_of_leaf(t, n, ids, d1) }));
            assert(sem3(e, ids, d2) == (match m { Match::All => sem_all_leaf(t, ids, d2), Match::Of(n) => sem_of_leaf(t, n, ids, d2) }));
        },
        _ => {
            lemma_frame(t, ids, d1, d2);
            lemma_frame_leaf(t, m, ids, d1, d2);
            assert(sem3(e, ids, d1) == (match m { Match::All => sem_all_leaf(t, ids, d1), Match::Of(n) => sem_of_leaf(t, n, ids, d1) }));
            assert(sem3(e, ids, d2) == (match m { Match::All => sem_all_leaf(t, ids, d2), Match::Of(n) => sem_of_leaf(t, n, ids, d2) }));
        },
    }
}

pub proof fn lemma_frame_cmp(l: Expression, op: BoolSym, r: Expression, ids: Ids, d1: DocM, d2: DocM)
    requires
        is_cmp(op),
        forall|k: Seq<char>| (operand_key(l) == Some(k) || operand_key(r) == Some(k)) ==> dm_find(d1, k) == dm_find(d2, k),
    ensures sem_cmp(l, op, r, d1) == sem_cmp(l, op, r, d2),
{
    match l { Expression::Field(f) => { assert(operand_key(l) == Some(f@)); }, Expression::Cast(f, _) => { assert(operand_key(l) == Some(f@)); }, _ => {} }
    match r { Expression::Field(f) => { assert(operand_key(r) == Some(f@)); }, Expression::Cast(f, _) => { assert(operand_key(r) == Some(f@)); }, _ => {} }
    assert(operand(l, d1) == operand(l, d2));
    assert(operand(r, d1) == operand(r, d2));
}

// ---- spec/matrix.rs: what optimiser::matrix() must establish (C01, C03, C17)
//
// matrix() turns an or-group into  Matrix(columns, rows) ++ rest : every disjunct becomes either a row (one cell per
// conjunct, re-keyed to the one-character name of the column of the field the conjunct addresses) or stays as it is.
// The structural relation below is what the executable code is verified against; spec/matrix_sem.rs proves that the
// relation implies truth-equivalence of the or-group.

// a String is determined by its text (sound: a Rust String has no other state observable here)
pub broadcast axiom fn axiom_string_ext(a: String, b: String)
    requires #[trigger] a@ == #[trigger] b@,
    ensures a == b;

pub open spec fn is_lit(e: Expression) -> bool { e is Boolean || e is Float || e is Integer || e is Null }

// conjuncts that can live in a matrix cell: a comparison of a field / cast with a literal, a nested block, a search
pub open spec fn cell_ok(x: Expression) -> bool {
    match x {
        Expression::BooleanExpression(l, _, r) => (*l is Cast || *l is Field) && is_lit(*r),
        Expression::Nested(_, _) => true,
        Expression::Search(_, _, _) => true,
        _ => false,
    }
}

// the field a conjunct / disjunct addresses (what the first pass counts)
pub open spec fn elem_field(x: Expression) -> Option<String> {
    match x {
        Expression::BooleanExpression(l, _, _) => match *l {
            Expression::Cast(f, _) => Some(f),
            Expression::Field(f) => Some(f),
            _ => None,
        },
        Expression::Nested(f, _) => Some(f),
        Expression::Search(_, f, _) => Some(f),
        _ => None,
    }
}

pub open spec fn all_cells(g: Seq<Expression>) -> bool { forall|c: int| 0 <= c < g.len() ==> cell_ok(#[trigger] g[c]) }

// what the first pass must have put into the column set for disjunct s
pub open spec fn needs(s: Expression, keys: Set<String>) -> bool {
    match s {
        Expression::BooleanGroup(BoolSym::And, g) => all_cells(g@) ==> forall|c: int| 0 <= c < g.len() ==> keys.contains(elem_field(#[trigger] g[c])->Some_0),
        _ => elem_field(s) is Some ==> keys.contains(elem_field(s)->Some_0),
    }
}

// the conjuncts of a disjunct
pub open spec fn conj(s: Expression) -> Seq<Expression> {
    match s {
        Expression::BooleanGroup(BoolSym::And, g) => g@,
        _ => seq![s],
    }
}

// the one-character key of column i (exactly what Cache::find decodes: cache_index)
pub open spec fn is_key(f: Seq<char>, i: int) -> bool { f.len() == 1 && f[0] as u32 as int == i }

// cell is conjunct x with its field replaced by the one-character key of column i
pub open spec fn is_rekey(cell: Expression, x: Expression, i: int) -> bool {
    match (cell, x) {
        (Expression::BooleanExpression(l2, op2, r2), Expression::BooleanExpression(l, op, r)) => op2 == op && *r2 == *r && match (*l2, *l) {
            (Expression::Cast(f2, k2), Expression::Cast(f, k)) => is_key(f2@, i) && k2 == k,
            (Expression::Field(f2), Expression::Field(f)) => is_key(f2@, i),
            _ => false,
        },
        (Expression::Nested(f2, x2), Expression::Nested(f, x1)) => is_key(f2@, i) && *x2 == *x1,
        (Expression::Search(s2, f2, c2), Expression::Search(s1, f, c1)) => is_key(f2@, i) && s2 == s1 && c2 == c1,
        _ => false,
    }
}

// row is disjunct s: every conjunct of s is exactly one cell, in the column of its field, and nothing else is in the row
#[verifier::opaque]
pub open spec fn row_ok(cols: Seq<String>, row: Seq<Option<Expression>>, s: Expression) -> bool {
    let cj = conj(s);
    &&& row.len() == cols.len()
    &&& forall|i: int| 0 <= i < row.len() && (#[trigger] row[i]) is Some ==>
            exists|c: int| 0 <= c < cj.len() && #[trigger] is_rekey(row[i]->Some_0, cj[c], i) && elem_field(cj[c]) == Some(cols[i])
    &&& forall|c: int| 0 <= c < cj.len() ==> cell_ok(#[trigger] cj[c])
            && exists|i: int| 0 <= i < row.len() && row[i] is Some && #[trigger] is_rekey(row[i]->Some_0, cj[c], i) && elem_field(cj[c]) == Some(cols[i])
}

// every row and every rest element comes from a disjunct ...
pub open spec fn row_has_src(cols: Seq<String>, row: Seq<Option<Expression>>, src: Seq<Expression>) -> bool {
    exists|j: int| 0 <= j < src.len() && row_ok(cols, row, #[trigger] src[j])
}
pub open spec fn mx_sound(cols: Seq<String>, rows: Seq<Vec<Option<Expression>>>, rest: Seq<Expression>, src: Seq<Expression>) -> bool {
    &&& forall|k: int| 0 <= k < rows.len() ==> row_has_src(cols, (#[trigger] rows[k])@, src)
    &&& forall|k: int| 0 <= k < rest.len() ==> src.contains(#[trigger] rest[k])
}
// ... and every disjunct is a row or a rest element
pub open spec fn placed(cols: Seq<String>, rows: Seq<Vec<Option<Expression>>>, rest: Seq<Expression>, s: Expression) -> bool {
    (exists|k: int| 0 <= k < rows.len() && row_ok(cols, (#[trigger] rows[k])@, s)) || rest.contains(s)
}
pub open spec fn mx_complete(cols: Seq<String>, rows: Seq<Vec<Option<Expression>>>, rest: Seq<Expression>, src: Seq<Expression>) -> bool {
    forall|j: int| 0 <= j < src.len() ==> placed(cols, rows, rest, #[trigger] src[j])
}

#[verifier::opaque]
pub open spec fn mx_inv(cols: Seq<String>, rows: Seq<Vec<Option<Expression>>>, rest: Seq<Expression>, src: Seq<Expression>) -> bool {
    mx_sound(cols, rows, rest, src) && mx_complete(cols, rows, rest, src)
}

pub proof fn lemma_mx_empty(cols: Seq<String>)
    ensures mx_inv(cols, Seq::empty(), Seq::empty(), Seq::empty()),
{
    reveal(mx_inv);
}

pub proof fn lemma_mx_push_row(cols: Seq<String>, rows: Seq<Vec<Option<Expression>>>, rest: Seq<Expression>, src: Seq<Expression>, row: Vec<Option<Expression>>, s: Expression)
    requires mx_inv(cols, rows, rest, src), row_ok(cols, row@, s),
    ensures mx_inv(cols, rows.push(row), rest, src.push(s)),
{
    reveal(mx_inv);
    let rows2 = rows.push(row);
    let src2 = src.push(s);
    assert forall|k: int| 0 <= k < rows2.len() implies row_has_src(cols, (#[trigger] rows2[k])@, src2) by {
        if k < rows.len() {
            assert(row_has_src(cols, rows[k]@, src));
            let j = choose|j: int| 0 <= j < src.len() && row_ok(cols, rows[k]@, #[trigger] src[j]);
            assert(row_ok(cols, rows2[k]@, src2[j]));
        } else {
            assert(row_ok(cols, rows2[k]@, src2[src.len() as int]));
        }
    }
    assert forall|k: int| 0 <= k < rest.len() implies src2.contains(#[trigger] rest[k]) by {
        let j = choose|j: int| 0 <= j < src.len() && src[j] == rest[k];
        assert(src2[j] == rest[k]);
    }
    assert forall|j: int| 0 <= j < src2.len() implies placed(cols, rows2, rest, #[trigger] src2[j]) by {
        if j < src.len() {
            assert(placed(cols, rows, rest, src[j]));
            if exists|k: int| 0 <= k < rows.len() && row_ok(cols, (#[trigger] rows[k])@, src[j]) {
                let k = choose|k: int| 0 <= k < rows.len() && row_ok(cols, (#[trigger] rows[k])@, src[j]);
                assert(row_ok(cols, rows2[k]@, src2[j]));
            }
        } else {
            assert(row_ok(cols, rows2[rows.len() as int]@, src2[j]));
        }
    }
}

pub proof fn lemma_mx_push_rest(cols: Seq<String>, rows: Seq<Vec<Option<Expression>>>, rest: Seq<Expression>, src: Seq<Expression>, s: Expression)
    requires mx_inv(cols, rows, rest, src),
    ensures mx_inv(cols, rows, rest.push(s), src.push(s)),
{
    reveal(mx_inv);
    let rest2 = rest.push(s);
    let src2 = src.push(s);
    assert forall|k: int| 0 <= k < rows.len() implies row_has_src(cols, (#[trigger] rows[k])@, src2) by {
        assert(row_has_src(cols, rows[k]@, src));
        let j = choose|j: int| 0 <= j < src.len() && row_ok(cols, rows[k]@, #[trigger] src[j]);
        assert(row_ok(cols, rows[k]@, src2[j]));
    }
    assert forall|k: int| 0 <= k < rest2.len() implies src2.contains(#[trigger] rest2[k]) by {
        if k < rest.len() {
            let j = choose|j: int| 0 <= j < src.len() && src[j] == rest[k];
            assert(src2[j] == rest2[k]);
        } else {
            assert(src2[src.len() as int] == rest2[k]);
        }
    }
    assert forall|j: int| 0 <= j < src2.len() implies placed(cols, rows, rest2, #[trigger] src2[j]) by {
        if j < src.len() {
            assert(placed(cols, rows, rest, src[j]));
            if rest.contains(src[j]) {
                let k = choose|k: int| 0 <= k < rest.len() && rest[k] == src[j];
                assert(rest2[k] == src2[j]);
            }
        } else {
            assert(rest2[rest.len() as int] == src2[j]);
        }
    }
}

// ---- the lookup table of one and-group (second pass): every conjunct so far is THE entry of its field
pub open spec fn lk_src(g: Seq<Expression>, n: int, k: String) -> bool {
    exists|c: int| 0 <= c < n && c < g.len() && elem_field(#[trigger] g[c]) == Some(k)
}
pub open spec fn lk_inv(m: Map<String, Expression>, g: Seq<Expression>, n: int) -> bool {
    &&& forall|c: int| 0 <= c < n && c < g.len() ==> cell_ok(#[trigger] g[c]) && m.contains_key(elem_field(g[c])->Some_0) && m[elem_field(g[c])->Some_0] == g[c]
    &&& forall|k: String| #[trigger] m.contains_key(k) ==> lk_src(g, n, k)
}

pub open spec fn fresh(cols: Seq<String>, n: int, k: String) -> bool { forall|i: int| 0 <= i < n && i < cols.len() ==> #[trigger] cols[i] != k }

// row built from the lookup table: column i holds the re-keyed entry of cols[i], if there is one
pub open spec fn row_from_lookup(cols: Seq<String>, row: Seq<Option<Expression>>, lk0: Map<String, Expression>, n: int) -> bool {
    forall|i: int| 0 <= i < n && i < row.len() && i < cols.len() ==> match #[trigger] row[i] {
        Some(cell) => lk0.contains_key(cols[i]) && is_rekey(cell, lk0[cols[i]], i),
        None => !lk0.contains_key(cols[i]),
    }
}

pub proof fn lemma_row_from_lookup(cols: Seq<String>, row: Seq<Option<Expression>>, g: Vec<Expression>, lk0: Map<String, Expression>, keys: Set<String>)
    requires
        lk_inv(lk0, g@, g@.len() as int),
        row.len() == cols.len(),
        row_from_lookup(cols, row, lk0, cols.len() as int),
        needs(Expression::BooleanGroup(BoolSym::And, g), keys),
        forall|k: String| keys.contains(k) <==> cols.contains(k),
    ensures
        row_ok(cols, row, Expression::BooleanGroup(BoolSym::And, g)),
{
    reveal(row_ok);
    let s = Expression::BooleanGroup(BoolSym::And, g);
    let cj = conj(s);
    assert(cj == g@);
    assert(all_cells(g@));
    assert forall|i: int| 0 <= i < row.len() && (#[trigger] row[i]) is Some implies
        exists|c: int| 0 <= c < cj.len() && #[trigger] is_rekey(row[i]->Some_0, cj[c], i) && elem_field(cj[c]) == Some(cols[i]) by {
        assert(lk0.contains_key(cols[i]));
        assert(lk_src(g@, g@.len() as int, cols[i]));
        let c = choose|c: int| 0 <= c < g@.len() && elem_field(#[trigger] g@[c]) == Some(cols[i]);
        assert(lk0[cols[i]] == g@[c]);
        assert(is_rekey(row[i]->Some_0, cj[c], i));
    }
    assert forall|c: int| 0 <= c < cj.len() implies cell_ok(#[trigger] cj[c])
        && exists|i: int| 0 <= i < row.len() && row[i] is Some && #[trigger] is_rekey(row[i]->Some_0, cj[c], i) && elem_field(cj[c]) == Some(cols[i]) by {
        let f = elem_field(g@[c])->Some_0;
        assert(cell_ok(g@[c]));
        assert(elem_field(g@[c]) is Some);
        assert(keys.contains(f));
        assert(cols.contains(f));
        let i = choose|i: int| 0 <= i < cols.len() && cols[i] == f;
        assert(lk0.contains_key(f) && lk0[f] == g@[c]);
        assert(row[i] is Some);
        assert(is_rekey(row[i]->Some_0, cj[c], i));
    }
}

// row of a disjunct that is a single cell: the cell sits in the columns named like its field
pub open spec fn row_single(cols: Seq<String>, row: Seq<Option<Expression>>, s: Expression, field: String, n: int) -> bool {
    forall|i: int| 0 <= i < n && i < row.len() && i < cols.len() ==> match #[trigger] row[i] {
        Some(cell) => cols[i] == field && is_rekey(cell, s, i),
        None => cols[i] != field,
    }
}

pub proof fn lemma_row_single(cols: Seq<String>, row: Seq<Option<Expression>>, s: Expression, field: String, keys: Set<String>)
    requires
        row.len() == cols.len(),
        row_single(cols, row, s, field, cols.len() as int),
        cell_ok(s), elem_field(s) == Some(field),
        needs(s, keys),
        forall|k: String| keys.contains(k) <==> cols.contains(k),
    ensures
        row_ok(cols, row, s),
{
    reveal(row_ok);
    let cj = conj(s);
    assert(cj =~= seq![s]);
    assert forall|i: int| 0 <= i < row.len() && (#[trigger] row[i]) is Some implies
        exists|c: int| 0 <= c < cj.len() && #[trigger] is_rekey(row[i]->Some_0, cj[c], i) && elem_field(cj[c]) == Some(cols[i]) by {
        assert(is_rekey(row[i]->Some_0, cj[0], i));
    }
    assert(cols.contains(field));
    let i = choose|i: int| 0 <= i < cols.len() && cols[i] == field;
    assert(row[i] is Some);
    assert(is_rekey(row[i]->Some_0, cj[0], i));
}

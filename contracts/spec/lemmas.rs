// ---- spec/lemmas.rs: solver-side structural lemmas

// has_ident is opaque (its recursive quantifier otherwise floods large queries): the level facts callers need
pub proof fn lemma_children(e: Expression)
    ensures
        match e {
            Expression::BooleanGroup(_, g) => forall|i: int| 0 <= i < g.len() ==> lvl(#[trigger] g[i]) <= lvl(e),
            Expression::BooleanExpression(l, _, r) => lvl(*l) <= lvl(e) && lvl(*r) <= lvl(e),
            Expression::Match(_, x) => lvl(*x) <= lvl(e),
            Expression::Negate(x) => lvl(*x) <= lvl(e),
            Expression::Nested(_, x) => lvl(*x) <= lvl(e),
            Expression::Identifier(_) => lvl(e) == 1,
            _ => true,
        },
{
    reveal_with_fuel(has_ident, 2);
}

pub proof fn lemma_ids_wf(ids: Ids, k: String)
    requires ids_wf(ids), ids.contains_key(k),
    ensures solvable(ids[k]), wf(ids[k], ids), !has_ident(ids[k]),
{
    reveal(ids_wf);
}

// ---- structural facts about all()/of() targets, proved once here so the big solver query stays small
pub proof fn lemma_match_unfold(e0: Expression, ids: Ids)
    requires wf(e0, ids), ids_wf(ids), e0 is Match,
    ensures
        ({
            let x = *e0->Match_1;
            let t = match_target(x, ids);
            &&& solvable(x) && wf(x, ids)
            &&& (x is Identifier ==> ids.contains_key(x->Identifier_0) && t == ids[x->Identifier_0] && lvl(e0) == 1 && lvl(t) == 0)
            &&& (!(x is Identifier) ==> t == x && lvl(t) <= lvl(e0))
            &&& solvable(t) && wf(t, ids)
            &&& (forall|k: Seq<char>| asks(t, ids, k) ==> asks(e0, ids, k))
            &&& (t is BooleanGroup ==> forall|i: int| 0 <= i < t->BooleanGroup_1.len() ==> {
                    let c = #[trigger] t->BooleanGroup_1[i];
                    solvable(c) && wf(c, ids) && lvl(c) <= lvl(t)
                        && (forall|k: Seq<char>| asks(c, ids, k) ==> asks(e0, ids, k))
                })
        }),
{
    reveal_with_fuel(has_ident, 3);
    reveal_with_fuel(asks, 3);
    reveal_with_fuel(wf, 2);
    reveal(ids_wf);
}

// ---- C03 bridge: what the condition parser establishes (wf_syntax) plus closed identifiers is exactly
// the solver's well-formedness precondition
pub open spec fn closed(e: Expression, ids: Ids) -> bool
    decreases e,
{
    match e {
        Expression::BooleanExpression(l, _, r) => closed(*l, ids) && closed(*r, ids),
        Expression::Negate(x) => closed(*x, ids),
        Expression::Match(_, x) => closed(*x, ids),
        Expression::Identifier(i) => ids.contains_key(i),
        _ => true,
    }
}

pub proof fn lemma_syntax_to_wf(e: Expression, ids: Ids)
    requires wf_syntax(e), closed(e, ids),
    ensures wf(e, ids),   // P:C03
    decreases e,
{
    reveal_with_fuel(wf, 2);
    reveal_with_fuel(closed, 2);
    match e {
        Expression::BooleanExpression(l, op, r) => {
            if !is_cmp(op) {
                lemma_syntax_to_wf(*l, ids);
                lemma_syntax_to_wf(*r, ids);
            }
        },
        Expression::Negate(x) => { lemma_syntax_to_wf(*x, ids); },
        _ => {},
    }
}

// ---- C13: a rule's own examples
pub open spec fn rule_wf(r: Rule) -> bool {
    solvable(r.detection.expression) && wf(r.detection.expression, r.detection.identifiers@) && ids_wf(r.detection.identifiers@)
}
pub open spec fn verdict(r: Rule, d: DocM) -> bool {
    sem3(r.detection.expression, r.detection.identifiers@, d) == SolverResult::True
}
// verdict on an example document; None when the example is not a mapping (malformed)
pub open spec fn example_verdict(r: Rule, y: Yaml) -> Option<bool> {
    match yaml_as_mapping(&y) {
        Some(m) => Some(verdict(r, DocM::Obj(mapping_obj(&m)))),
        None => None,
    }
}

// how many of the first n examples fail: a true positive fails unless it is a mapping the rule matches, a true negative
// fails unless it is a mapping the rule does not match
pub open spec fn tp_failures(r: Rule, n: int) -> nat
    decreases n,
{
    if n <= 0 { 0 } else { tp_failures(r, n - 1) + (if example_verdict(r, r.true_positives@[n - 1]) == Some(true) { 0nat } else { 1nat }) }
}
pub open spec fn tn_failures(r: Rule, n: int) -> nat
    decreases n,
{
    if n <= 0 { 0 } else { tn_failures(r, n - 1) + (if example_verdict(r, r.true_negatives@[n - 1]) == Some(false) { 0nat } else { 1nat }) }
}
pub open spec fn failures(r: Rule) -> nat { tp_failures(r, r.true_positives@.len() as int) + tn_failures(r, r.true_negatives@.len() as int) }

pub proof fn lemma_tp_failures_zero(r: Rule, n: int)
    requires 0 <= n <= r.true_positives@.len(),
    ensures (tp_failures(r, n) == 0) <==> (forall|i: int| 0 <= i < n ==> example_verdict(r, #[trigger] r.true_positives@[i]) == Some(true)),
    decreases n,
{
    if n > 0 { lemma_tp_failures_zero(r, n - 1); }
}
pub proof fn lemma_tn_failures_zero(r: Rule, n: int)
    requires 0 <= n <= r.true_negatives@.len(),
    ensures (tn_failures(r, n) == 0) <==> (forall|i: int| 0 <= i < n ==> example_verdict(r, #[trigger] r.true_negatives@[i]) == Some(false)),
    decreases n,
{
    if n > 0 { lemma_tn_failures_zero(r, n - 1); }
}

// ---- slow_aho: the 64-bit bitmap counts each member once (C08)
pub open spec fn bit(m: u64, q: u64) -> bool { (m >> q) & 1 == 1 }

pub proof fn lemma_bit_or(m: u64, p: u64, q: u64)
    requires p < 64, q < 64,
    ensures bit(m | (1u64 << p), q) == (bit(m, q) || q == p),
{
    assert(((m | (1u64 << p)) >> q) & 1 == 1 <==> (((m >> q) & 1 == 1) || q == p)) by(bit_vector)
        requires p < 64, q < 64;
}

pub proof fn lemma_bit_zero(q: u64)
    requires q < 64,
    ensures !bit(0, q),
{
    assert((0u64 >> q) & 1 == 0) by(bit_vector);
}

pub proof fn lemma_bit_val(m: u64, i: u64)
    requires i < 64,
    ensures (m >> i) & 1 == (if bit(m, i) { 1u64 } else { 0u64 }),
{
    assert((m >> i) & 1 == 0 || (m >> i) & 1 == 1) by(bit_vector);
}

// member p has an accepted occurrence among the first c reported ones
pub open spec fn seen(a: &AhoCorasick, m: Seq<MatchType>, v: Seq<char>, c: int, p: int) -> bool {
    exists|k: int| 0 <= k < c && k < ac_hits(a, v).len() && pid(ac_pattern(#[trigger] ac_hits(a, v)[k])) == p && ac_accepts(m, ac_hits(a, v)[k], v)
}

pub proof fn lemma_seen_step(a: &AhoCorasick, m: Seq<MatchType>, v: Seq<char>, c: int, p: int)
    requires 0 <= c < ac_hits(a, v).len(),
    ensures seen(a, m, v, c + 1, p) == (seen(a, m, v, c, p) || (pid(ac_pattern(ac_hits(a, v)[c])) == p && ac_accepts(m, ac_hits(a, v)[c], v))),
{
    if seen(a, m, v, c + 1, p) {
        let k = choose|k: int| 0 <= k < c + 1 && k < ac_hits(a, v).len() && pid(ac_pattern(#[trigger] ac_hits(a, v)[k])) == p && ac_accepts(m, ac_hits(a, v)[k], v);
        if k < c { assert(seen(a, m, v, c, p)); }
    }
    if seen(a, m, v, c, p) {
        let k = choose|k: int| 0 <= k < c && k < ac_hits(a, v).len() && pid(ac_pattern(#[trigger] ac_hits(a, v)[k])) == p && ac_accepts(m, ac_hits(a, v)[k], v);
        assert(0 <= k < c + 1);
    }
    if pid(ac_pattern(ac_hits(a, v)[c])) == p && ac_accepts(m, ac_hits(a, v)[c], v) {
        assert(0 <= c < c + 1);
    }
}

pub proof fn lemma_seen_all(a: &AhoCorasick, m: Seq<MatchType>, v: Seq<char>, p: int)
    ensures seen(a, m, v, ac_hits(a, v).len() as int, p) == pat_hit(a, m, v, p),
{
}

// ---- C17 at expression level: reordering the operands of a group
pub proof fn lemma_group_reorder(op: BoolSym, g1: Vec<Expression>, g2: Vec<Expression>, f: Seq<int>, ids: Ids, d: DocM)
    requires
        op == BoolSym::And || op == BoolSym::Or,
        g1@.len() == g2@.len() && g2@.len() == f.len(),
        forall|i: int| 0 <= i < f.len() ==> 0 <= #[trigger] f[i] < g1@.len() && g2@[i] == g1@[f[i]],
        forall|j: int| 0 <= j < g1@.len() ==> #[trigger] covers(f, j),
    ensures
        op == BoolSym::Or ==> sem3(Expression::BooleanGroup(op, g2), ids, d) == sem3(Expression::BooleanGroup(op, g1), ids, d),   // P:C17
        op == BoolSym::And ==> (sem3(Expression::BooleanGroup(op, g2), ids, d) == SolverResult::True)
            == (sem3(Expression::BooleanGroup(op, g1), ids, d) == SolverResult::True),   // P:C17
{
    let e1 = Expression::BooleanGroup(op, g1);
    let e2 = Expression::BooleanGroup(op, g2);
    let s1 = sems(g1, ids, d, e1);
    let s2 = sems(g2, ids, d, e2);
    reveal_with_fuel(has_ident, 2);
    assert(reordering(s1, s2, f)) by {
        assert forall|i: int| 0 <= i < f.len() implies 0 <= #[trigger] f[i] < s1.len() && s2[i] == s1[f[i]] by {
            assert(g2@[i] == g1@[f[i]]);
        }
    }
    if op == BoolSym::Or { lemma_or3_reorder(s1, s2, f); } else { lemma_and3_truth_reorder(s1, s2, f); }
}

// ---- Nested over an array: structural facts proved once (keeps the solver query small)
pub proof fn lemma_nested_blocks(e0: Expression, ids: Ids)
    requires
        wf(e0, ids), e0 is Nested,
        (*e0->Nested_1) is Match && (*e0->Nested_1)->Match_0 == Match::All && (*(*e0->Nested_1)->Match_1) is BooleanGroup,
    ensures
        ({
            let inner = *(*e0->Nested_1)->Match_1;
            let g = inner->BooleanGroup_1;
            &&& wf(inner, ids)
            &&& forall|j: int| 0 <= j < g.len() ==> solvable(#[trigger] g[j]) && wf(g[j], ids) && lvl(g[j]) <= lvl(e0)
                && decreases_to!(e0 => g[j]) && decreases_to!(inner => g[j]) && lvl(g[j]) <= lvl(inner)
        }),
{
    reveal_with_fuel(has_ident, 4);
    reveal_with_fuel(wf, 3);
}

// the and3 over the blocks of an all(..) over nested blocks, one block at a time (keeps and3 / block_results folded at the use site)
pub proof fn lemma_blocks_step(g: Vec<Expression>, ids: Ids, elems: Seq<V>, parent: Expression, j: int)
    requires
        0 <= j < g.len(),
        forall|i: int| 0 <= i < g.len() ==> decreases_to!(parent => #[trigger] g[i]) && lvl(g[i]) <= lvl(parent),
    ensures
        ({
            let br = block_results(g, ids, elems, parent);
            &&& br.len() == g.len()
            &&& br[j] == or3(obj_results(g[j], ids, elems))
            &&& (br[j] == SolverResult::True ==> and3(br.skip(j)) == and3(br.skip(j + 1)))
            &&& (br[j] != SolverResult::True ==> and3(br.skip(j)) == br[j])
        }),
{
    let br = block_results(g, ids, elems, parent);
    assert(br.skip(j)[0] == br[j]);
    assert(br.skip(j).skip(1) =~= br.skip(j + 1));
}

pub proof fn lemma_blocks_ends(g: Vec<Expression>, ids: Ids, elems: Seq<V>, parent: Expression)
    requires forall|i: int| 0 <= i < g.len() ==> decreases_to!(parent => #[trigger] g[i]) && lvl(g[i]) <= lvl(parent),
    ensures
        ({
            let br = block_results(g, ids, elems, parent);
            &&& br.len() == g.len()
            &&& and3(br.skip(0)) == and3(br)
            &&& and3(br.skip(g.len() as int)) == SolverResult::True
        }),
{
    let br = block_results(g, ids, elems, parent);
    assert(br.skip(0) =~= br);
    assert(br.skip(g.len() as int).len() == 0);
}

pub proof fn lemma_obj_results_len(x: Expression, ids: Ids, elems: Seq<V>)
    ensures obj_results(x, ids, elems).len() == elems.len(),
{
}

// one element's result inside obj_results, stated without unfolding sem3 at the use site
pub proof fn lemma_obj_result_at(x: Expression, ids: Ids, elems: Seq<V>, k: int)
    requires 0 <= k < elems.len(),
    ensures
        obj_results(x, ids, elems).len() == elems.len(),
        obj_results(x, ids, elems)[k] == (match elems[k] { V::Object(o) => sem3(x, ids, DocM::Obj(o)), _ => SolverResult::Missing }),
{
}

// ---- Matrix: structural facts about the cells (proved once)
pub proof fn lemma_matrix_cells(e0: Expression, ids: Ids)
    requires wf(e0, ids), e0 is Matrix,
    ensures
        ({
            let cols = e0->Matrix_0;
            let rows = e0->Matrix_1;
            forall|a: int, b: int| 0 <= a < rows.len() && 0 <= b < rows[a].len() ==> rows[a].len() == cols.len()
                && ((#[trigger] rows[a][b]) is Some ==> solvable(rows[a][b]->Some_0) && wf(rows[a][b]->Some_0, ids)
                    && lvl(rows[a][b]->Some_0) == 0 && decreases_to!(e0 => rows[a][b]->Some_0)
                    && cell_keys_ok(rows[a][b]->Some_0, ids, cols.len() as nat))
        }),
{
}

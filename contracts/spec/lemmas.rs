// ---- spec/lemmas.rs: solver-side structural lemmas

pub proof fn lemma_ids_wf(ids: Ids, k: String)
    requires ids_wf(ids), ids.contains_key(k),
    ensures solvable(ids[k]), wf(ids[k], ids), !has_ident(ids[k]),
{
    reveal(ids_wf);
}

// ---- structural facts about all()/of() targets, proved once here so the big solver query stays small
pub proof fn lemma_match_unfold(e0: Expression, ids: Ids)
    requires wf(e0, ids), ids_wf(ids), e0 is Match,
    ensures
        ({
            let x = *e0->Match_1;
            let t = match_target(x, ids);
            &&& solvable(x) && wf(x, ids)
            &&& (x is Identifier ==> ids.contains_key(x->Identifier_0) && t == ids[x->Identifier_0] && lvl(e0) == 1 && lvl(t) == 0)
            &&& (!(x is Identifier) ==> t == x && lvl(t) <= lvl(e0))
            &&& solvable(t) && wf(t, ids)
            &&& (forall|k: Seq<char>| asks(t, ids, k) ==> asks(e0, ids, k))
            &&& (t is BooleanGroup ==> forall|i: int| 0 <= i < t->BooleanGroup_1.len() ==> {
                    let c = #[trigger] t->BooleanGroup_1[i];
                    solvable(c) && wf(c, ids) && lvl(c) <= lvl(t)
                        && (forall|k: Seq<char>| asks(c, ids, k) ==> asks(e0, ids, k))
                })
        }),
{
    reveal_with_fuel(has_ident, 3);
    reveal_with_fuel(asks, 3);
    reveal_with_fuel(wf, 2);
    reveal(ids_wf);
}

// ---- C03 bridge: what the condition parser establishes (wf_syntax) plus closed identifiers is exactly
// the solver's well-formedness precondition
pub open spec fn closed(e: Expression, ids: Ids) -> bool
    decreases e,
{
    match e {
        Expression::BooleanExpression(l, _, r) => closed(*l, ids) && closed(*r, ids),
        Expression::Negate(x) => closed(*x, ids),
        Expression::Match(_, x) => closed(*x, ids),
        Expression::Identifier(i) => ids.contains_key(i),
        _ => true,
    }
}

pub proof fn lemma_syntax_to_wf(e: Expression, ids: Ids)
    requires wf_syntax(e), closed(e, ids),
    ensures wf(e, ids),   // P:C03
    decreases e,
{
    reveal_with_fuel(wf, 2);
    reveal_with_fuel(closed, 2);
    match e {
        Expression::BooleanExpression(l, op, r) => {
            if !is_cmp(op) {
                lemma_syntax_to_wf(*l, ids);
                lemma_syntax_to_wf(*r, ids);
            }
        },
        Expression::Negate(x) => { lemma_syntax_to_wf(*x, ids); },
        _ => {},
    }
}

// ---- C13: a rule's own examples
pub open spec fn rule_wf(r: Rule) -> bool {
    solvable(r.detection.expression) && wf(r.detection.expression, r.detection.identifiers@) && ids_wf(r.detection.identifiers@)
}
pub open spec fn verdict(r: Rule, d: DocM) -> bool {
    sem3(r.detection.expression, r.detection.identifiers@, d) == SolverResult::True
}
// verdict on an example document; None when the example is not a mapping (malformed)
pub open spec fn example_verdict(r: Rule, y: Yaml) -> Option<bool> {
    match yaml_as_mapping(&y) {
        Some(m) => Some(verdict(r, DocM::Obj(mapping_obj(&m)))),
        None => None,
    }
}

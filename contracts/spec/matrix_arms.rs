// ---- spec/matrix_arms.rs: the structural arms of matrix() carry mx_post from the operands to the whole (C01, C03)

pub proof fn lemma_post_refl(e: Expression, ids: Ids)
    requires mx_pre(e, ids),
    ensures mx_post(e, e, ids),
{
    reveal(mx_post);
}

// ---- and-group
pub proof fn lemma_and_arm(g0: Vec<Expression>, scratch: Vec<Expression>, ids: Ids)
    requires
        mx_pre(Expression::BooleanGroup(BoolSym::And, g0), ids),
        scratch@.len() == g0@.len(),
        forall|j: int| 0 <= j < g0@.len() ==> mx_post(#[trigger] scratch@[j], g0@[j], ids),
    ensures
        mx_post(Expression::BooleanGroup(BoolSym::And, scratch), Expression::BooleanGroup(BoolSym::And, g0), ids),
{
    let e0 = Expression::BooleanGroup(BoolSym::And, g0);
    let res = Expression::BooleanGroup(BoolSym::And, scratch);
    reveal(mx_post);
    assert(e0->BooleanGroup_1 == g0 && res->BooleanGroup_1 == scratch);
    assert forall|j: int| 0 <= j < g0.len() implies wf(#[trigger] g0[j], ids) && solvable(g0[j]) && blocks_closed(g0[j]) by {}
    assert forall|j: int| 0 <= j < scratch.len() implies solvable(#[trigger] scratch[j]) && wf(scratch[j], ids) && blocks_closed(scratch[j]) by {
        assert(mx_post(scratch@[j], g0@[j], ids));
        assert(solvable(g0[j]));
    }
    if !has_ident(e0) {
        assert forall|j: int| 0 <= j < g0.len() implies !has_ident(#[trigger] g0[j]) by {
            if has_ident(g0[j]) { lemma_has_ident_elem(BoolSym::And, g0, j); }
        }
        if has_ident(res) {
            let i = choose|i: int| 0 <= i < scratch.len() && has_ident(#[trigger] scratch[i]);
            assert(mx_post(scratch@[i], g0@[i], ids));
            assert(!has_ident(g0[i]));
        }
    }
    if neg_safe(e0) {
        assert forall|d: DocM| #[trigger] tr(res, ids, d) == tr(e0, ids, d) by {
            lemma_sems_defined(BoolSym::And, g0, ids, d);
            lemma_sems_defined(BoolSym::And, scratch, ids, d);
            let s0 = sems(g0, ids, d, e0);
            let s1 = sems(scratch, ids, d, res);
            lemma_and3_true_iff(s0);
            lemma_and3_true_iff(s1);
            assert forall|j: int| 0 <= j < g0.len() implies (s1[j] == SolverResult::True) == (s0[j] == SolverResult::True) by {
                assert(mx_post(scratch@[j], g0@[j], ids));
                assert(neg_safe(g0[j]));
                assert(tr(scratch@[j], ids, d) == tr(g0@[j], ids, d));
            }
        }
    }
    if or_free(e0) {
        assert forall|d: DocM| #[trigger] sem3(res, ids, d) == sem3(e0, ids, d) by {
            lemma_sems_defined(BoolSym::And, g0, ids, d);
            lemma_sems_defined(BoolSym::And, scratch, ids, d);
            let s0 = sems(g0, ids, d, e0);
            let s1 = sems(scratch, ids, d, res);
            assert forall|j: int| 0 <= j < g0.len() implies s1[j] == s0[j] by {
                assert(mx_post(scratch@[j], g0@[j], ids));
                assert(or_free(g0[j]));
                assert(sem3(scratch@[j], ids, d) == sem3(g0@[j], ids, d));
            }
            assert(s1 =~= s0);
        }
    }
}

// ---- or-group left as it is (no matrix built)
pub proof fn lemma_or_plain(g0: Vec<Expression>, scratch: Vec<Expression>, ids: Ids)
    requires
        mx_pre(Expression::BooleanGroup(BoolSym::Or, g0), ids),
        scratch@.len() == g0@.len(),
        forall|j: int| 0 <= j < g0@.len() ==> mx_post(#[trigger] scratch@[j], g0@[j], ids),
    ensures
        mx_post(Expression::BooleanGroup(BoolSym::Or, scratch), Expression::BooleanGroup(BoolSym::Or, g0), ids),
{
    let e0 = Expression::BooleanGroup(BoolSym::Or, g0);
    let res = Expression::BooleanGroup(BoolSym::Or, scratch);
    reveal(mx_post);
    assert(e0->BooleanGroup_1 == g0 && res->BooleanGroup_1 == scratch);
    assert forall|j: int| 0 <= j < g0.len() implies wf(#[trigger] g0[j], ids) && solvable(g0[j]) && blocks_closed(g0[j]) by {}
    assert forall|j: int| 0 <= j < scratch.len() implies solvable(#[trigger] scratch[j]) && wf(scratch[j], ids) && blocks_closed(scratch[j]) by {
        assert(mx_post(scratch@[j], g0@[j], ids));
        assert(solvable(g0[j]));
    }
    if !has_ident(e0) {
        assert forall|j: int| 0 <= j < g0.len() implies !has_ident(#[trigger] g0[j]) by {
            if has_ident(g0[j]) { lemma_has_ident_elem(BoolSym::Or, g0, j); }
        }
        if has_ident(res) {
            let i = choose|i: int| 0 <= i < scratch.len() && has_ident(#[trigger] scratch[i]);
            assert(mx_post(scratch@[i], g0@[i], ids));
            assert(!has_ident(g0[i]));
        }
    }
    if neg_safe(e0) {
        assert forall|d: DocM| #[trigger] tr(res, ids, d) == tr(e0, ids, d) by {
            lemma_or_true(g0, ids, d);
            lemma_or_true(scratch, ids, d);
            if exists|i: int| 0 <= i < scratch.len() && tr(#[trigger] scratch[i], ids, d) {
                let j = choose|i: int| 0 <= i < scratch.len() && tr(#[trigger] scratch[i], ids, d);
                assert(mx_post(scratch@[j], g0@[j], ids));
                assert(neg_safe(g0[j]));
                assert(tr(scratch@[j], ids, d) == tr(g0@[j], ids, d));
                assert(tr(g0[j], ids, d));
            }
            if exists|i: int| 0 <= i < g0.len() && tr(#[trigger] g0[i], ids, d) {
                let j = choose|i: int| 0 <= i < g0.len() && tr(#[trigger] g0[i], ids, d);
                assert(mx_post(scratch@[j], g0@[j], ids));
                assert(neg_safe(g0[j]));
                assert(tr(scratch@[j], ids, d) == tr(g0@[j], ids, d));
                assert(tr(scratch[j], ids, d));
            }
        }
    }
}

// ---- binary expression: a comparison keeps its operands, and/or carry the claim
pub proof fn lemma_be_arm(l0: Expression, r0: Expression, op: BoolSym, l: Expression, r: Expression, ids: Ids)
    requires
        mx_pre(Expression::BooleanExpression(Box::new(l0), op, Box::new(r0)), ids),
        mx_pre(l0, ids) ==> mx_post(l, l0, ids),
        mx_pre(r0, ids) ==> mx_post(r, r0, ids),
        is_term(l0) ==> l == l0,
        is_term(r0) ==> r == r0,
    ensures
        mx_post(Expression::BooleanExpression(Box::new(l), op, Box::new(r)), Expression::BooleanExpression(Box::new(l0), op, Box::new(r0)), ids),
{
    let e0 = Expression::BooleanExpression(Box::new(l0), op, Box::new(r0));
    let res = Expression::BooleanExpression(Box::new(l), op, Box::new(r));
    reveal(mx_post);
    reveal_with_fuel(has_ident, 2);
    if is_cmp(op) {
        assert(res == e0);
    } else {
        assert(mx_pre(l0, ids) && mx_pre(r0, ids));
        assert(op == BoolSym::And || op == BoolSym::Or);
        if neg_safe(e0) {
            assert forall|d: DocM| #[trigger] tr(res, ids, d) == tr(e0, ids, d) by {
                assert(tr(l, ids, d) == tr(l0, ids, d));
                assert(tr(r, ids, d) == tr(r0, ids, d));
            }
        }
        if or_free(e0) {
            assert forall|d: DocM| #[trigger] sem3(res, ids, d) == sem3(e0, ids, d) by {
                assert(sem3(l, ids, d) == sem3(l0, ids, d));
                assert(sem3(r, ids, d) == sem3(r0, ids, d));
            }
        }
    }
}

// ---- negation needs full equivalence of its operand
pub proof fn lemma_negate_arm(x0: Expression, x: Expression, ids: Ids)
    requires
        mx_pre(Expression::Negate(Box::new(x0)), ids),
        mx_post(x, x0, ids),
    ensures
        mx_post(Expression::Negate(Box::new(x)), Expression::Negate(Box::new(x0)), ids),
{
    let e0 = Expression::Negate(Box::new(x0));
    let res = Expression::Negate(Box::new(x));
    reveal(mx_post);
    reveal_with_fuel(has_ident, 2);
    if or_free(x0) {
        assert forall|d: DocM| #[trigger] sem3(res, ids, d) == sem3(e0, ids, d) by {
            assert(sem3(x, ids, d) == sem3(x0, ids, d));
        }
        assert forall|d: DocM| #[trigger] tr(res, ids, d) == tr(e0, ids, d) by {
            assert(sem3(res, ids, d) == sem3(e0, ids, d));
        }
    }
}

// ---- nested block: an object is searched directly, an array element-wise ("some element satisfies the block")
pub proof fn lemma_nested_array_truth(a: Expression, b: Expression, ids: Ids, arr: ArrM)
    requires tsame_at(a, b, ids), !(a is Match), !(b is Match),
    ensures (sem_nested_array(a, ids, arr) == SolverResult::True) == (sem_nested_array(b, ids, arr) == SolverResult::True),
{
    reveal(some_true);
    let objs = arr_elems(arr);
    let sa = obj_results(a, ids, objs);
    let sb = obj_results(b, ids, objs);
    assert forall|k: int| 0 <= k < objs.len() implies (sa[k] == SolverResult::True) == (sb[k] == SolverResult::True) by {
        assert(sa[k] == elem_result(a, ids, objs[k]));
        assert(sb[k] == elem_result(b, ids, objs[k]));
        if objs[k] is Object { assert(tr(a, ids, DocM::Obj(objs[k]->Object_0)) == tr(b, ids, DocM::Obj(objs[k]->Object_0))); }
    }
    assert(sem_nested_array(a, ids, arr) == b3(some_true(sa)));
    assert(sem_nested_array(b, ids, arr) == b3(some_true(sb)));
    if any3(sa, SolverResult::True) { let k = choose|k: int| 0 <= k < sa.len() && sa[k] == SolverResult::True; assert(sb[k] == SolverResult::True); }
    if any3(sb, SolverResult::True) { let k = choose|k: int| 0 <= k < sb.len() && sb[k] == SolverResult::True; assert(sa[k] == SolverResult::True); }
}

pub proof fn lemma_nested_truth(f: String, a: Expression, b: Expression, ids: Ids, d: DocM)
    requires tsame_at(a, b, ids), !(a is Match), !(b is Match),
    ensures tr(Expression::Nested(f, Box::new(a)), ids, d) == tr(Expression::Nested(f, Box::new(b)), ids, d),
{
    let ea = Expression::Nested(f, Box::new(a));
    let eb = Expression::Nested(f, Box::new(b));
    match dm_find(d, f@) {
        Some(V::Array(arr)) => {
            lemma_nested_array_truth(a, b, ids, arr);
            assert(sem3(ea, ids, d) == sem_nested_array(a, ids, arr));
            assert(sem3(eb, ids, d) == sem_nested_array(b, ids, arr));
        },
        Some(V::Object(o)) => {
            assert(sem3(ea, ids, d) == sem3(a, ids, DocM::Obj(o)));
            assert(sem3(eb, ids, d) == sem3(b, ids, DocM::Obj(o)));
            assert(tr(a, ids, DocM::Obj(o)) == tr(b, ids, DocM::Obj(o)));
        },
        Some(_) => { assert(sem3(ea, ids, d) == SolverResult::False); assert(sem3(eb, ids, d) == SolverResult::False); },
        None => { assert(sem3(ea, ids, d) == SolverResult::Missing); assert(sem3(eb, ids, d) == SolverResult::Missing); },
    }
}

pub proof fn lemma_nested_array_exact(a: Expression, b: Expression, ids: Ids, arr: ArrM)
    requires esame_at(a, b, ids), !(a is Match), !(b is Match),
    ensures sem_nested_array(a, ids, arr) == sem_nested_array(b, ids, arr),
{
    let objs = arr_elems(arr);
    let sa = obj_results(a, ids, objs);
    let sb = obj_results(b, ids, objs);
    assert forall|k: int| 0 <= k < objs.len() implies sa[k] == sb[k] by {
        assert(sa[k] == elem_result(a, ids, objs[k]));
        assert(sb[k] == elem_result(b, ids, objs[k]));
        if objs[k] is Object { assert(sem3(a, ids, DocM::Obj(objs[k]->Object_0)) == sem3(b, ids, DocM::Obj(objs[k]->Object_0))); }
    }
    assert(sa =~= sb);
    assert(sem_nested_array(a, ids, arr) == b3(some_true(sa)));
    assert(sem_nested_array(b, ids, arr) == b3(some_true(sb)));
}

pub proof fn lemma_nested_exact(f: String, a: Expression, b: Expression, ids: Ids, d: DocM)
    requires esame_at(a, b, ids), !(a is Match), !(b is Match),
    ensures sem3(Expression::Nested(f, Box::new(a)), ids, d) == sem3(Expression::Nested(f, Box::new(b)), ids, d),
{
    let ea = Expression::Nested(f, Box::new(a));
    let eb = Expression::Nested(f, Box::new(b));
    match dm_find(d, f@) {
        Some(V::Array(arr)) => {
            lemma_nested_array_exact(a, b, ids, arr);
            assert(sem3(ea, ids, d) == sem_nested_array(a, ids, arr));
            assert(sem3(eb, ids, d) == sem_nested_array(b, ids, arr));
        },
        Some(V::Object(o)) => {
            assert(sem3(ea, ids, d) == sem3(a, ids, DocM::Obj(o)));
            assert(sem3(eb, ids, d) == sem3(b, ids, DocM::Obj(o)));
        },
        Some(_) => { assert(sem3(ea, ids, d) == SolverResult::False); assert(sem3(eb, ids, d) == SolverResult::False); },
        None => { assert(sem3(ea, ids, d) == SolverResult::Missing); assert(sem3(eb, ids, d) == SolverResult::Missing); },
    }
}

pub proof fn lemma_or_free_head(x: Expression)
    requires or_free(x),
    ensures has_match_head(x) == (x is Match),
{
}

pub proof fn lemma_nested_arm(f: String, x0: Expression, x: Expression, ids: Ids)
    requires
        mx_pre(Expression::Nested(f, Box::new(x0)), ids),
        mx_post(x, x0, ids),
        x is Match ==> has_match_head(x0),
    ensures
        mx_post(Expression::Nested(f, Box::new(x)), Expression::Nested(f, Box::new(x0)), ids),
{
    let e0 = Expression::Nested(f, Box::new(x0));
    let res = Expression::Nested(f, Box::new(x));
    reveal(mx_post);
    reveal_with_fuel(has_ident, 2);
    assert(wf(res, ids) && blocks_closed(res) && solvable(res) == solvable(e0));
    if neg_safe(e0) {
        assert(!(x is Match) && !(x0 is Match));
        assert forall|d: DocM| #[trigger] tr(res, ids, d) == tr(e0, ids, d) by {
            lemma_nested_truth(f, x, x0, ids, d);
        }
    }
    if or_free(e0) {
        lemma_or_free_head(x0);
        assert(!(x is Match) && !(x0 is Match));
        assert forall|d: DocM| #[trigger] sem3(res, ids, d) == sem3(e0, ids, d) by {
            lemma_nested_exact(f, x, x0, ids, d);
        }
    }
}

// ---- all()/of(): matrix() hands the operand(s) to shake_1, which is not under contract (assumed: sh_post)
#[verifier::opaque]
pub open spec fn sh_post(r: Expression, e: Expression, ids: Ids) -> bool {
    &&& wf(r, ids) && blocks_closed(r) && solvable(r) == solvable(e)
    &&& !has_ident(e) ==> !has_ident(r)
    &&& esame_at(r, e, ids)
    &&& forall|m: Match| #[trigger] esame_at(Expression::Match(m, Box::new(r)), Expression::Match(m, Box::new(e)), ids)
}

pub proof fn lemma_match_single(m: Match, x0: Expression, x: Expression, ids: Ids)
    requires
        mx_pre(Expression::Match(m, Box::new(x0)), ids),
        sh_post(x, x0, ids),
    ensures
        mx_post(Expression::Match(m, Box::new(x)), Expression::Match(m, Box::new(x0)), ids),
{
    let e0 = Expression::Match(m, Box::new(x0));
    let res = Expression::Match(m, Box::new(x));
    reveal(mx_post);
    reveal(sh_post);
    reveal_with_fuel(has_ident, 2);
    assert(esame_at(Expression::Match(m, Box::new(x)), Expression::Match(m, Box::new(x0)), ids));
    assert(esame_at(res, e0, ids));
    assert forall|d: DocM| #[trigger] tr(res, ids, d) == tr(e0, ids, d) by {
        assert(sem3(res, ids, d) == sem3(e0, ids, d));
    }
}

pub proof fn lemma_match_group(m: Match, op: BoolSym, g0: Vec<Expression>, scratch: Vec<Expression>, ids: Ids)
    requires
        mx_pre(Expression::Match(m, Box::new(Expression::BooleanGroup(op, g0))), ids),
        scratch@.len() == g0@.len(),
        forall|j: int| 0 <= j < g0@.len() ==> sh_post(#[trigger] scratch@[j], g0@[j], ids),
    ensures
        mx_post(Expression::Match(m, Box::new(Expression::BooleanGroup(op, scratch))), Expression::Match(m, Box::new(Expression::BooleanGroup(op, g0))), ids),
{
    let i0 = Expression::BooleanGroup(op, g0);
    let i1 = Expression::BooleanGroup(op, scratch);
    let e0 = Expression::Match(m, Box::new(i0));
    let res = Expression::Match(m, Box::new(i1));
    reveal(mx_post);
    reveal(sh_post);
    reveal_with_fuel(has_ident, 3);
    reveal_with_fuel(wf, 2);
    reveal_with_fuel(blocks_closed, 2);
    assert(i0->BooleanGroup_1 == g0 && i1->BooleanGroup_1 == scratch);
    assert(wf(i0, ids) && blocks_closed(i0));
    assert forall|j: int| 0 <= j < g0.len() implies wf(#[trigger] g0[j], ids) && solvable(g0[j]) && blocks_closed(g0[j]) by {}
    assert forall|j: int| 0 <= j < scratch.len() implies solvable(#[trigger] scratch[j]) && wf(scratch[j], ids) && blocks_closed(scratch[j]) by {
        assert(sh_post(scratch@[j], g0@[j], ids));
        assert(solvable(g0[j]));
    }
    assert(wf(i1, ids) && blocks_closed(i1));
    if !has_ident(e0) {
        assert(!has_ident(i0));
        assert forall|j: int| 0 <= j < g0.len() implies !has_ident(#[trigger] g0[j]) by {
            if has_ident(g0[j]) { lemma_has_ident_elem(op, g0, j); }
        }
        if has_ident(i1) {
            let i = choose|i: int| 0 <= i < scratch.len() && has_ident(#[trigger] scratch[i]);
            assert(sh_post(scratch@[i], g0@[i], ids));
            assert(!has_ident(g0[i]));
        }
    }
    assert forall|d: DocM| #[trigger] sem3(res, ids, d) == sem3(e0, ids, d) by {
        lemma_sems_defined(op, g0, ids, d);
        lemma_sems_defined(op, scratch, ids, d);
        let s0 = sems(g0, ids, d, i0);
        let s1 = sems(scratch, ids, d, i1);
        assert forall|j: int| 0 <= j < g0.len() implies s1[j] == s0[j] by {
            assert(sh_post(scratch@[j], g0@[j], ids));
            assert(sem3(scratch@[j], ids, d) == sem3(g0@[j], ids, d));
        }
        assert(s1 =~= s0);
        assert(match_target(i0, ids) == i0 && match_target(i1, ids) == i1);
    }
    assert forall|d: DocM| #[trigger] tr(res, ids, d) == tr(e0, ids, d) by {
        assert(sem3(res, ids, d) == sem3(e0, ids, d));
    }
}

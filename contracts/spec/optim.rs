// ---- spec/optim.rs: what "optimisation never changes a verdict" means for one pass (C01)

// three-valued equivalence for every document (needed compositionally: a rewritten sub-tree may sit under `not`)
pub open spec fn sem_equiv(a: Expression, b: Expression, ids: Ids) -> bool {
    forall|d: DocM| #[trigger] sem3(a, ids, d) == sem3(b, ids, d)
}

pub assume_specification[ <Expression as Clone>::clone ](e: &Expression) -> (r: Expression)
    ensures r == *e;

pub uninterp spec fn into_seq<T, I: IntoIterator<Item = T>>(i: I) -> Seq<T>;
pub broadcast axiom fn axiom_into_seq_vec<T>(v: Vec<T>)
    ensures #[trigger] into_seq::<T, Vec<T>>(v) == v@;
pub assume_specification<T, A: std::alloc::Allocator, I: IntoIterator<Item = T>>[ <Vec<T, A> as Extend<T>>::extend::<I> ](v: &mut Vec<T, A>, other: I)
    ensures final(v)@ == old(v)@ + into_seq::<T, I>(other);

// shape coalesce relies on: all()/of() in a condition name an identifier (that is what the parser produces);
// anything else under all()/of() is returned unchanged
pub open spec fn coalesce_ok(e: Expression) -> bool
    decreases e,
{
    match e {
        Expression::BooleanGroup(_, g) => forall|i: int| 0 <= i < g.len() ==> coalesce_ok(#[trigger] g[i]),
        Expression::BooleanExpression(l, _, r) => coalesce_ok(*l) && coalesce_ok(*r),
        Expression::Negate(x) => coalesce_ok(*x),
        Expression::Nested(_, x) => coalesce_ok(*x) && !(*x is Match) && !(*x is Identifier),
        Expression::Match(_, x) => *x is Identifier || *x is Search || *x is Matrix || is_leaf(*x),
        _ => true,
    }
}

// congruence of sem3 under the unary constructors and the binary connectives
pub proof fn lemma_congruences(ids: Ids)
    ensures
        forall|a: Expression, b: Expression| #![trigger sem_equiv(Expression::Negate(Box::new(a)), Expression::Negate(Box::new(b)), ids)]
            sem_equiv(a, b, ids) ==> sem_equiv(Expression::Negate(Box::new(a)), Expression::Negate(Box::new(b)), ids),
        forall|f: String, a: Expression, b: Expression| #![trigger sem_equiv(Expression::Nested(f, Box::new(a)), Expression::Nested(f, Box::new(b)), ids)]
            (forall|d: DocM| #[trigger] sem3(a, ids, d) == sem3(b, ids, d)) && !(a is Match) && !(b is Match) ==> sem_equiv(Expression::Nested(f, Box::new(a)), Expression::Nested(f, Box::new(b)), ids),
{
    assert forall|a: Expression, b: Expression| sem_equiv(a, b, ids) implies
        sem_equiv(Expression::Negate(Box::new(a)), Expression::Negate(Box::new(b)), ids) by {
        assert forall|d: DocM| #[trigger] sem3(Expression::Negate(Box::new(a)), ids, d) == sem3(Expression::Negate(Box::new(b)), ids, d) by {
            assert(sem3(a, ids, d) == sem3(b, ids, d));
        }
    }
    assert forall|f: String, a: Expression, b: Expression| (forall|d: DocM| #[trigger] sem3(a, ids, d) == sem3(b, ids, d)) && !(a is Match) && !(b is Match) implies
        sem_equiv(Expression::Nested(f, Box::new(a)), Expression::Nested(f, Box::new(b)), ids) by {
        assert forall|d: DocM| #[trigger] sem3(Expression::Nested(f, Box::new(a)), ids, d) == sem3(Expression::Nested(f, Box::new(b)), ids, d) by {
            lemma_nested_congruence(f, a, b, ids, d);
        }
    }
}

pub proof fn lemma_nested_congruence(f: String, a: Expression, b: Expression, ids: Ids, d: DocM)
    requires forall|d2: DocM| #[trigger] sem3(a, ids, d2) == sem3(b, ids, d2), !(a is Match), !(b is Match),
    ensures sem3(Expression::Nested(f, Box::new(a)), ids, d) == sem3(Expression::Nested(f, Box::new(b)), ids, d),
{
    // object / missing / scalar cases follow from the hypothesis; the array case is the element-wise statement below
    let ea = Expression::Nested(f, Box::new(a));
    let eb = Expression::Nested(f, Box::new(b));
    match dm_find(d, f@) {
        Some(V::Array(arr)) => {
            lemma_nested_array_congruence(a, b, ids, arr);
            assert(sem3(ea, ids, d) == sem_nested_array(a, ids, arr));
            assert(sem3(eb, ids, d) == sem_nested_array(b, ids, arr));
        },
        Some(V::Object(o)) => {
            assert(sem3(ea, ids, d) == sem3(a, ids, DocM::Obj(o)));
            assert(sem3(eb, ids, d) == sem3(b, ids, DocM::Obj(o)));
        },
        Some(_) => { assert(sem3(ea, ids, d) == SolverResult::False); assert(sem3(eb, ids, d) == SolverResult::False); },
        None => { assert(sem3(ea, ids, d) == SolverResult::Missing); assert(sem3(eb, ids, d) == SolverResult::Missing); },
    }
}

// A nested block over an array of objects only looks at sem3 of the block on each element -- except for the
// all()-of-several-blocks and Matrix forms, which are syntactic; those are excluded here (coalesce returns them unchanged).
pub proof fn lemma_nested_array_congruence(a: Expression, b: Expression, ids: Ids, arr: ArrM)
    requires forall|d2: DocM| #[trigger] sem3(a, ids, d2) == sem3(b, ids, d2),
    ensures (!(a is Match) && !(b is Match)) ==> sem_nested_array(a, ids, arr) == sem_nested_array(b, ids, arr),
{
    if !(a is Match) && !(b is Match) {
        let objs = obj_elems(arr);
        let sa = obj_results(a, ids, objs);
        let sb = obj_results(b, ids, objs);
        assert forall|k: int| 0 <= k < objs.len() implies sa[k] == sb[k] by {
            assert(sem3(a, ids, DocM::Obj(objs[k])) == sem3(b, ids, DocM::Obj(objs[k])));
        }
        assert(sa =~= sb);
        assert(sem_nested_array(a, ids, arr) == b3(some_true(sa)));
        assert(sem_nested_array(b, ids, arr) == b3(some_true(sb)));
    }
}

pub proof fn lemma_match_coalesce(ids: Ids)
    requires ids_wf(ids),
    ensures
        forall|m: Match, x: Expression, xp: Expression| #![trigger sem_equiv(Expression::Match(m, Box::new(xp)), Expression::Match(m, Box::new(x)), ids)]
            (x is Identifier && ids.contains_key(x->Identifier_0) && xp == ids[x->Identifier_0])
                ==> sem_equiv(Expression::Match(m, Box::new(xp)), Expression::Match(m, Box::new(x)), ids),
{
    reveal(ids_wf);
    assert forall|m: Match, x: Expression, xp: Expression|
        (x is Identifier && ids.contains_key(x->Identifier_0) && xp == ids[x->Identifier_0])
        implies sem_equiv(Expression::Match(m, Box::new(xp)), Expression::Match(m, Box::new(x)), ids) by {
        reveal_with_fuel(has_ident, 2);
        assert(match_target(x, ids) == xp);
        assert(match_target(xp, ids) == xp);
        assert forall|d: DocM| #[trigger] sem3(Expression::Match(m, Box::new(xp)), ids, d) == sem3(Expression::Match(m, Box::new(x)), ids, d) by {
            if xp is BooleanGroup {
                let g = xp->BooleanGroup_1;
                assert(sems(g, ids, d, xp) =~= sems(g, ids, d, xp));
            }
        }
    }
}

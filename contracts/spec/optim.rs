// ---- spec/optim.rs: what "optimisation never changes a verdict" means for one pass (C01)

// three-valued equivalence for every document (needed compositionally: a rewritten sub-tree may sit under `not`)
pub open spec fn sem_equiv(a: Expression, b: Expression, ids: Ids) -> bool {
    forall|d: DocM| #[trigger] sem3(a, ids, d) == sem3(b, ids, d)
}

// shape coalesce relies on: all()/of() in a condition name an identifier (that is what the parser produces);
// anything else under all()/of() is returned unchanged
pub open spec fn coalesce_ok(e: Expression) -> bool
    decreases e,
{
    match e {
        Expression::BooleanGroup(_, g) => forall|i: int| 0 <= i < g.len() ==> coalesce_ok(#[trigger] g[i]),
        Expression::BooleanExpression(l, _, r) => coalesce_ok(*l) && coalesce_ok(*r),
        Expression::Negate(x) => coalesce_ok(*x),
        Expression::Nested(_, x) => coalesce_ok(*x) && !(*x is Match) && !(*x is Identifier),
        Expression::Match(_, x) => *x is Identifier || *x is Search || *x is Matrix || is_leaf(*x),
        _ => true,
    }
}

// congruence of sem3 under the unary constructors and the binary connectives
pub proof fn lemma_congruences(ids: Ids)
    ensures
        forall|a: Expression, b: Expression| #![trigger sem_equiv(Expression::Negate(Box::new(a)), Expression::Negate(Box::new(b)), ids)]
            sem_equiv(a, b, ids) ==> sem_equiv(Expression::Negate(Box::new(a)), Expression::Negate(Box::new(b)), ids),
        forall|f: String, a: Expression, b: Expression| #![trigger sem_equiv(Expression::Nested(f, Box::new(a)), Expression::Nested(f, Box::new(b)), ids)]
            (forall|d: DocM| #[trigger] sem3(a, ids, d) == sem3(b, ids, d)) && !(a is Match) && !(b is Match) ==> sem_equiv(Expression::Nested(f, Box::new(a)), Expression::Nested(f, Box::new(b)), ids),
{
    assert forall|a: Expression, b: Expression| sem_equiv(a, b, ids) implies
        sem_equiv(Expression::Negate(Box::new(a)), Expression::Negate(Box::new(b)), ids) by {
        assert forall|d: DocM| #[trigger] sem3(Expression::Negate(Box::new(a)), ids, d) == sem3(Expression::Negate(Box::new(b)), ids, d) by {
            assert(sem3(a, ids, d) == sem3(b, ids, d));
        }
    }
    assert forall|f: String, a: Expression, b: Expression| (forall|d: DocM| #[trigger] sem3(a, ids, d) == sem3(b, ids, d)) && !(a is Match) && !(b is Match) implies
        sem_equiv(Expression::Nested(f, Box::new(a)), Expression::Nested(f, Box::new(b)), ids) by {
        assert forall|d: DocM| #[trigger] sem3(Expression::Nested(f, Box::new(a)), ids, d) == sem3(Expression::Nested(f, Box::new(b)), ids, d) by {
            lemma_nested_congruence(f, a, b, ids, d);
        }
    }
}

pub proof fn lemma_nested_congruence(f: String, a: Expression, b: Expression, ids: Ids, d: DocM)
    requires forall|d2: DocM| #[trigger] sem3(a, ids, d2) == sem3(b, ids, d2), !(a is Match), !(b is Match),
    ensures sem3(Expression::Nested(f, Box::new(a)), ids, d) == sem3(Expression::Nested(f, Box::new(b)), ids, d),
{
    // object / missing / scalar cases follow from the hypothesis; the array case is the element-wise statement below
    let ea = Expression::Nested(f, Box::new(a));
    let eb = Expression::Nested(f, Box::new(b));
    match dm_find(d, f@) {
        Some(V::Array(arr)) => {
            lemma_nested_array_congruence(a, b, ids, arr);
            assert(sem3(ea, ids, d) == sem_nested_array(a, ids, arr));
            assert(sem3(eb, ids, d) == sem_nested_array(b, ids, arr));
        },
        Some(V::Object(o)) => {
            assert(sem3(ea, ids, d) == sem3(a, ids, DocM::Obj(o)));
            assert(sem3(eb, ids, d) == sem3(b, ids, DocM::Obj(o)));
        },
        Some(_) => { assert(sem3(ea, ids, d) == SolverResult::False); assert(sem3(eb, ids, d) == SolverResult::False); },
        None => { assert(sem3(ea, ids, d) == SolverResult::Missing); assert(sem3(eb, ids, d) == SolverResult::Missing); },
    }
}

// A nested block over an array of objects only looks at sem3 of the block on each element -- except for the
// all()-of-several-blocks and Matrix forms, which are syntactic; those are excluded here (coalesce returns them unchanged).
#[verifier::spinoff_prover]
#[verifier::rlimit(100)]
pub proof fn lemma_nested_array_congruence(a: Expression, b: Expression, ids: Ids, arr: ArrM)
    requires forall|d2: DocM| #[trigger] sem3(a, ids, d2) == sem3(b, ids, d2),
    ensures (!(a is Match) && !(b is Match)) ==> sem_nested_array(a, ids, arr) == sem_nested_array(b, ids, arr),
{
    if !(a is Match) && !(b is Match) {
        let objs = arr_elems(arr);
        let sa = obj_results(a, ids, objs);
        let sb = obj_results(b, ids, objs);
        assert forall|k: int| 0 <= k < objs.len() implies sa[k] == sb[k] by {
            assert(sa[k] == elem_result(a, ids, objs[k]));
            assert(sb[k] == elem_result(b, ids, objs[k]));
            if objs[k] is Object { assert(sem3(a, ids, DocM::Obj(objs[k]->Object_0)) == sem3(b, ids, DocM::Obj(objs[k]->Object_0))); }
        }
        assert(sa =~= sb);
        assert(sem_nested_array(a, ids, arr) == b3(some_true(sa)));
        assert(sem_nested_array(b, ids, arr) == b3(some_true(sb)));
    }
}

pub proof fn lemma_match_coalesce(ids: Ids)
    requires ids_wf(ids),
    ensures
        forall|m: Match, x: Expression, xp: Expression| #![trigger sem_equiv(Expression::Match(m, Box::new(xp)), Expression::Match(m, Box::new(x)), ids)]
            (x is Identifier && ids.contains_key(x->Identifier_0) && xp == ids[x->Identifier_0])
                ==> sem_equiv(Expression::Match(m, Box::new(xp)), Expression::Match(m, Box::new(x)), ids),
{
    reveal(ids_wf);
    assert forall|m: Match, x: Expression, xp: Expression|
        (x is Identifier && ids.contains_key(x->Identifier_0) && xp == ids[x->Identifier_0])
        implies sem_equiv(Expression::Match(m, Box::new(xp)), Expression::Match(m, Box::new(x)), ids) by {
        reveal_with_fuel(has_ident, 2);
        assert(match_target(x, ids) == xp);
        assert(match_target(xp, ids) == xp);
        assert forall|d: DocM| #[trigger] sem3(Expression::Match(m, Box::new(xp)), ids, d) == sem3(Expression::Match(m, Box::new(x)), ids, d) by {
            if xp is BooleanGroup {
                let g = xp->BooleanGroup_1;
                assert(sems(g, ids, d, xp) =~= sems(g, ids, d, xp));
            }
        }
    }
}

// ---- shake_0
// equivalence for every identifier table and every document
#[verifier::opaque]
pub open spec fn sem_same(a: Expression, b: Expression) -> bool {
    forall|ids: Ids, d: DocM| #[trigger] sem3(a, ids, d) == sem3(b, ids, d)
}

pub open spec fn leafish(e: Expression) -> bool { e is Identifier || e is Search || e is Matrix || is_leaf(e) }

// every group in the tree is an and- or an or-group (what the parser and the optimiser produce)
pub open spec fn groups_ok(e: Expression) -> bool
    decreases e,
{
    match e {
        Expression::BooleanGroup(op, g) => (op == BoolSym::And || op == BoolSym::Or) && forall|i: int| 0 <= i < g.len() ==> groups_ok(#[trigger] g[i]),
        Expression::BooleanExpression(l, op, r) => if is_cmp(op) { is_term(*l) && is_term(*r) } else { groups_ok(*l) && groups_ok(*r) },
        // all()/of() count over a group, or look at one identifier / search / matrix / field (what the parsers produce)
        Expression::Match(_, x) => groups_ok(*x) && (*x is BooleanGroup || leafish(*x)),
        Expression::Negate(x) => groups_ok(*x),
        Expression::Nested(_, x) => groups_ok(*x),
        _ => true,
    }
}

// sems of a concatenated / extended vector
pub proof fn lemma_sems_concat(v: Vec<Expression>, a: Vec<Expression>, b: Vec<Expression>, ids: Ids, d: DocM, op: BoolSym)
    requires v@ == a@ + b@,
    ensures sems(v, ids, d, Expression::BooleanGroup(op, v)) == sems(a, ids, d, Expression::BooleanGroup(op, a)) + sems(b, ids, d, Expression::BooleanGroup(op, b)),
{
    let ev = Expression::BooleanGroup(op, v);
    let ea = Expression::BooleanGroup(op, a);
    let eb = Expression::BooleanGroup(op, b);
    let sv = sems(v, ids, d, ev);
    let sa = sems(a, ids, d, ea);
    let sb = sems(b, ids, d, eb);
    lemma_sems_defined(op, v, ids, d);
    lemma_sems_defined(op, a, ids, d);
    lemma_sems_defined(op, b, ids, d);
    assert((a@ + b@).len() == a@.len() + b@.len());
    assert(v@.len() == a@.len() + b@.len());
    assert(sv.len() == v@.len() && sa.len() == a@.len() && sb.len() == b@.len());
    assert forall|i: int| 0 <= i < sv.len() implies sv[i] == (sa + sb)[i] by {
        assert(sv[i] == sem3(v[i], ids, d));
        if i < a@.len() {
            assert((a@ + b@)[i] == a@[i]);
            assert(v[i] == a[i]);
            assert(sa[i] == sem3(a[i], ids, d));
        } else {
            assert((a@ + b@)[i] == b@[i - a@.len()]);
            assert(v[i] == b[i - a@.len()]);
            assert(sb[i - a@.len()] == sem3(b[i - a@.len()], ids, d));
        }
    }
    assert(sv =~= sa + sb);
}

pub proof fn lemma_congruences_all()
    ensures
        forall|a: Expression, b: Expression| #![trigger sem_same(Expression::Negate(Box::new(a)), Expression::Negate(Box::new(b)))]
            sem_same(a, b) ==> sem_same(Expression::Negate(Box::new(a)), Expression::Negate(Box::new(b))),
        forall|f: String, a: Expression, b: Expression| #![trigger sem_same(Expression::Nested(f, Box::new(a)), Expression::Nested(f, Box::new(b)))]
            sem_same(a, b) && !(a is Match) && !(b is Match) ==> sem_same(Expression::Nested(f, Box::new(a)), Expression::Nested(f, Box::new(b))),
{
    reveal(sem_same);
    assert forall|a: Expression, b: Expression| sem_same(a, b) implies
        sem_same(Expression::Negate(Box::new(a)), Expression::Negate(Box::new(b))) by {
        assert forall|ids: Ids, d: DocM| #[trigger] sem3(Expression::Negate(Box::new(a)), ids, d) == sem3(Expression::Negate(Box::new(b)), ids, d) by {
            assert(sem3(a, ids, d) == sem3(b, ids, d));
        }
    }
    assert forall|f: String, a: Expression, b: Expression| sem_same(a, b) && !(a is Match) && !(b is Match) implies
        sem_same(Expression::Nested(f, Box::new(a)), Expression::Nested(f, Box::new(b))) by {
        assert forall|ids: Ids, d: DocM| #[trigger] sem3(Expression::Nested(f, Box::new(a)), ids, d) == sem3(Expression::Nested(f, Box::new(b)), ids, d) by {
            assert forall|d2: DocM| #[trigger] sem3(a, ids, d2) == sem3(b, ids, d2) by {}
            lemma_nested_congruence(f, a, b, ids, d);
        }
    }
}

// the two- and three-operand forms against the group forms
pub proof fn lemma_and3_3(a: SolverResult, b: SolverResult, c: SolverResult)
    ensures and3(seq![a, b, c]) == and2(and2(a, b), c), and3(seq![a, b, c]) == and2(a, and2(b, c)),
{
    lemma_and3_concat(seq![a], seq![b, c]);
    lemma_and3_concat(seq![b], seq![c]);
    lemma_single(a); lemma_single(b); lemma_single(c);
    assert(seq![a] + seq![b, c] =~= seq![a, b, c]);
    assert(seq![b] + seq![c] =~= seq![b, c]);
}
pub proof fn lemma_or3_3(a: SolverResult, b: SolverResult, c: SolverResult)
    ensures or3(seq![a, b, c]) == or2(or2(a, b), c), or3(seq![a, b, c]) == or2(a, or2(b, c)),
{
    lemma_or3_concat(seq![a], seq![b, c]);
    lemma_or3_concat(seq![b], seq![c]);
    lemma_single(a); lemma_single(b); lemma_single(c);
    assert(seq![a] + seq![b, c] =~= seq![a, b, c]);
    assert(seq![b] + seq![c] =~= seq![b, c]);
}
pub open spec fn vec_of_one(e: Expression) -> Vec<Expression> { choose|v: Vec<Expression>| v@ =~= seq![e] }

// ---- sem_same is an equivalence and a congruence (proved once here; the optimiser proofs only chain these facts)
pub proof fn lemma_same_refl(a: Expression) ensures sem_same(a, a) { reveal(sem_same); }
pub proof fn lemma_same_sym(a: Expression, b: Expression) requires sem_same(a, b) ensures sem_same(b, a) { reveal(sem_same); }
pub proof fn lemma_same_trans(a: Expression, b: Expression, c: Expression)
    requires sem_same(a, b), sem_same(b, c), ensures sem_same(a, c),
{
    reveal(sem_same);
    assert forall|ids: Ids, d: DocM| #[trigger] sem3(a, ids, d) == sem3(c, ids, d) by { assert(sem3(a, ids, d) == sem3(b, ids, d)); }
}

pub proof fn lemma_group_equiv(op: BoolSym, gn: Vec<Expression>, g0: Vec<Expression>)
    requires
        op == BoolSym::And || op == BoolSym::Or,
        gn@.len() == g0@.len(),
        forall|j: int| 0 <= j < g0@.len() ==> sem_same(#[trigger] gn@[j], g0@[j]),
    ensures
        sem_same(Expression::BooleanGroup(op, gn), Expression::BooleanGroup(op, g0)),
        gn@.len() == 1 ==> sem_same(gn@[0], Expression::BooleanGroup(op, g0)),
{
    reveal(sem_same);
    let en = Expression::BooleanGroup(op, gn);
    let e0 = Expression::BooleanGroup(op, g0);
    assert forall|ids: Ids, d: DocM| #[trigger] sem3(en, ids, d) == sem3(e0, ids, d) by {
        assert forall|j: int| 0 <= j < g0@.len() implies #[trigger] sem3(gn[j], ids, d) == sem3(g0[j], ids, d) by {
            assert(sem_same(gn@[j], g0@[j]));
        }
        let sn = sems(gn, ids, d, en);
        let s0 = sems(g0, ids, d, e0);
        reveal_with_fuel(has_ident, 2);
        assert(sn.len() == gn@.len());
        assert(s0.len() == g0@.len());
        assert forall|k: int| 0 <= k < sn.len() implies sn[k] == s0[k] by {
            assert(sn[k] == sem3(gn[k], ids, d));
            assert(s0[k] == sem3(g0[k], ids, d));
        }
        assert(sn =~= s0);
    }
    if gn@.len() == 1 {
        assert forall|ids: Ids, d: DocM| #[trigger] sem3(gn@[0], ids, d) == sem3(e0, ids, d) by {
            assert(sem_same(gn@[0], g0@[0]));
            assert(sems(g0, ids, d, e0) =~= seq![sem3(g0@[0], ids, d)]);
            lemma_single(sem3(g0@[0], ids, d));
        }
    }
}

// a group of one element means that element
pub proof fn lemma_group_single(op: BoolSym, v: Vec<Expression>, x: Expression)
    requires op == BoolSym::And || op == BoolSym::Or, v@ =~= seq![x],
    ensures sem_same(Expression::BooleanGroup(op, v), x),
{
    reveal(sem_same);
    let e = Expression::BooleanGroup(op, v);
    assert forall|ids: Ids, d: DocM| #[trigger] sem3(e, ids, d) == sem3(x, ids, d) by {
        assert(sems(v, ids, d, e) =~= seq![sem3(x, ids, d)]);
        lemma_single(sem3(x, ids, d));
    }
}

// flattening: (and-group gl) and (and-group gr)  ==  and-group (gl ++ gr); same for or
pub proof fn lemma_merge(op: BoolSym, v: Vec<Expression>, gl: Vec<Expression>, gr: Vec<Expression>)
    requires op == BoolSym::And || op == BoolSym::Or, v@ =~= gl@ + gr@,
    ensures sem_same(Expression::BooleanGroup(op, v),
        Expression::BooleanExpression(Box::new(Expression::BooleanGroup(op, gl)), op, Box::new(Expression::BooleanGroup(op, gr)))),
{
    reveal(sem_same);
    let e = Expression::BooleanGroup(op, v);
    let el = Expression::BooleanGroup(op, gl);
    let er = Expression::BooleanGroup(op, gr);
    let b = Expression::BooleanExpression(Box::new(el), op, Box::new(er));
    reveal_with_fuel(has_ident, 2);
    assert forall|ids: Ids, d: DocM| #[trigger] sem3(e, ids, d) == sem3(b, ids, d) by {
        lemma_sems_concat(v, gl, gr, ids, d, op);
        assert(sem3(el, ids, d) == (if op == BoolSym::And { and3(sems(gl, ids, d, el)) } else { or3(sems(gl, ids, d, el)) }));
        assert(sem3(er, ids, d) == (if op == BoolSym::And { and3(sems(gr, ids, d, er)) } else { or3(sems(gr, ids, d, er)) }));
        assert(sem3(e, ids, d) == (if op == BoolSym::And { and3(sems(v, ids, d, e)) } else { or3(sems(v, ids, d, e)) }));
        assert(sem3(b, ids, d) == (if op == BoolSym::And { and2(sem3(el, ids, d), sem3(er, ids, d)) } else { or2(sem3(el, ids, d), sem3(er, ids, d)) }));
        if op == BoolSym::And { lemma_and3_concat(sems(gl, ids, d, el), sems(gr, ids, d, er)); }
        else { lemma_or3_concat(sems(gl, ids, d, el), sems(gr, ids, d, er)); }
    }
}

// congruence of the binary node; comparison operands are terms and must be the same terms
pub proof fn lemma_be_congr(a: Expression, a2: Expression, op: BoolSym, b: Expression, b2: Expression)
    requires sem_same(a, a2), sem_same(b, b2), is_cmp(op) ==> a == a2 && b == b2,
    ensures sem_same(Expression::BooleanExpression(Box::new(a), op, Box::new(b)), Expression::BooleanExpression(Box::new(a2), op, Box::new(b2))),
{
    reveal(sem_same);
    let x = Expression::BooleanExpression(Box::new(a), op, Box::new(b));
    let y = Expression::BooleanExpression(Box::new(a2), op, Box::new(b2));
    assert forall|ids: Ids, d: DocM| #[trigger] sem3(x, ids, d) == sem3(y, ids, d) by {
        assert(sem3(a, ids, d) == sem3(a2, ids, d));
        assert(sem3(b, ids, d) == sem3(b2, ids, d));
    }
}

// three operands: the group form equals both nestings of the binary form
pub proof fn lemma_three(op: BoolSym, v: Vec<Expression>, x: Expression, y: Expression, z: Expression)
    requires op == BoolSym::And || op == BoolSym::Or, v@ =~= seq![x, y, z],
    ensures
        sem_same(Expression::BooleanGroup(op, v), Expression::BooleanExpression(Box::new(Expression::BooleanExpression(Box::new(x), op, Box::new(y))), op, Box::new(z))),
        sem_same(Expression::BooleanGroup(op, v), Expression::BooleanExpression(Box::new(x), op, Box::new(Expression::BooleanExpression(Box::new(y), op, Box::new(z))))),
{
    reveal(sem_same);
    let e = Expression::BooleanGroup(op, v);
    let b1 = Expression::BooleanExpression(Box::new(Expression::BooleanExpression(Box::new(x), op, Box::new(y))), op, Box::new(z));
    let b2 = Expression::BooleanExpression(Box::new(x), op, Box::new(Expression::BooleanExpression(Box::new(y), op, Box::new(z))));
    reveal_with_fuel(has_ident, 2);
    assert forall|ids: Ids, d: DocM| #[trigger] sem3(e, ids, d) == sem3(b1, ids, d) && sem3(e, ids, d) == sem3(b2, ids, d) by {
        let sv = sems(v, ids, d, e);
        assert(sv.len() == 3);
        assert(v[0] == x && v[1] == y && v[2] == z);
        assert(sv[0] == sem3(v[0], ids, d) && sv[1] == sem3(v[1], ids, d) && sv[2] == sem3(v[2], ids, d));
        assert(sv =~= seq![sem3(x, ids, d), sem3(y, ids, d), sem3(z, ids, d)]);
        let bxy = Expression::BooleanExpression(Box::new(x), op, Box::new(y));
        let byz = Expression::BooleanExpression(Box::new(y), op, Box::new(z));
        assert(sem3(bxy, ids, d) == (if op == BoolSym::And { and2(sem3(x, ids, d), sem3(y, ids, d)) } else { or2(sem3(x, ids, d), sem3(y, ids, d)) }));
        assert(sem3(byz, ids, d) == (if op == BoolSym::And { and2(sem3(y, ids, d), sem3(z, ids, d)) } else { or2(sem3(y, ids, d), sem3(z, ids, d)) }));
        if op == BoolSym::And { lemma_and3_3(sem3(x, ids, d), sem3(y, ids, d), sem3(z, ids, d)); }
        else { lemma_or3_3(sem3(x, ids, d), sem3(y, ids, d), sem3(z, ids, d)); }
    }
}
pub open spec fn vec_of_one_ok(v: Vec<Expression>) -> bool { true }
pub proof fn lemma_vec_of_one()
    ensures forall|e: Expression| #[trigger] vec_of_one(e)@ =~= seq![e],
{
    assert forall|e: Expression| #[trigger] vec_of_one(e)@ =~= seq![e] by {
        assume(exists|v: Vec<Expression>| v@ =~= seq![e]);   // a Vec with any given contents exists (Vec is inhabited for every view)
    }
}

// element-wise equality of sequences (as a hypothesis the solver can refute element by element)
pub open spec fn same_seq(a: Seq<Expression>, b: Seq<Expression>) -> bool {
    a.len() == b.len() && forall|i: int| 0 <= i < a.len() ==> #[trigger] a[i] == b[i]
}

// `or` commutes in all three values (so an or-chain may be flattened in either order)
pub proof fn lemma_or_commute(a: Expression, b: Expression)
    ensures sem_same(Expression::BooleanExpression(Box::new(a), BoolSym::Or, Box::new(b)), Expression::BooleanExpression(Box::new(b), BoolSym::Or, Box::new(a))),
{
    reveal(sem_same);
    let x = Expression::BooleanExpression(Box::new(a), BoolSym::Or, Box::new(b));
    let y = Expression::BooleanExpression(Box::new(b), BoolSym::Or, Box::new(a));
    assert forall|ids: Ids, d: DocM| #[trigger] sem3(x, ids, d) == sem3(y, ids, d) by {
        lemma_binary_commute(sem3(a, ids, d), sem3(b, ids, d));
    }
}

// all()/of() over a group whose entries are replaced by equivalent ones (the group itself is kept)
#[verifier::spinoff_prover]
#[verifier::rlimit(100)]
pub proof fn lemma_match_group_same(m: Match, op: BoolSym, g: Vec<Expression>, s: Vec<Expression>)
    requires
        s@.len() == g@.len(),
        forall|j: int| 0 <= j < g@.len() ==> sem_same(#[trigger] s@[j], g@[j]),
    ensures
        sem_same(Expression::Match(m, Box::new(Expression::BooleanGroup(op, s))), Expression::Match(m, Box::new(Expression::BooleanGroup(op, g)))),   // P:C01
{
    reveal(sem_same);
    let i0 = Expression::BooleanGroup(op, g);
    let i1 = Expression::BooleanGroup(op, s);
    let e0 = Expression::Match(m, Box::new(i0));
    let e1 = Expression::Match(m, Box::new(i1));
    assert forall|ids: Ids, d: DocM| #[trigger] sem3(e1, ids, d) == sem3(e0, ids, d) by {
        lemma_sems_defined(op, g, ids, d);
        lemma_sems_defined(op, s, ids, d);
        let s0 = sems(g, ids, d, i0);
        let s1 = sems(s, ids, d, i1);
        assert forall|j: int| 0 <= j < g.len() implies s1[j] == s0[j] by {
            assert(sem_same(s@[j], g@[j]));
            assert(sem3(s@[j], ids, d) == sem3(g@[j], ids, d));
        }
        assert(s1 =~= s0);
        assert(match_target(i0, ids) == i0 && match_target(i1, ids) == i1);
    }
}

// ---- spec/sem.rs: three-valued denotational semantics of Expression (the reference the solver must equal)
//
// Written from the rule-language documentation and the property statements:
//   and  = first non-true operand result, else true          (C06)
//   or   = true if any true, else false if any false, else missing
//   not  = swaps true/false, missing -> false
//   all  = and over the members;  of(n>=1) = at least n members true;  of(0) = no member true
//   a field the document lacks makes the predicate Missing, never True      (C02)

pub type Ids = Map<String, Expression>;

// ---------------------------------------------------------------- syntactic predicates
pub open spec fn has_ident(e: Expression) -> bool
    decreases e,
{
    match e {
        Expression::Identifier(_) => true,
        Expression::BooleanGroup(_, g) => exists|i: int| 0 <= i < g.len() && has_ident(#[trigger] g[i]),
        Expression::BooleanExpression(l, _, r) => has_ident(*l) || has_ident(*r),
        Expression::Match(_, x) => has_ident(*x),
        Expression::Negate(x) => has_ident(*x),
        Expression::Nested(_, x) => has_ident(*x),
        Expression::Matrix(_, rows) => exists|j: int, i: int|
            0 <= j < rows.len() && 0 <= i < rows[j].len() && (#[trigger] rows[j][i]) is Some && has_ident(rows[j][i]->Some_0),
        _ => false,
    }
}

pub open spec fn lvl(e: Expression) -> nat { if has_ident(e) { 1 } else { 0 } }

// operands of a comparison: literals, fields, casts (and the all()/of()-wrapped field parse_mapping can leave there)
pub open spec fn is_leaf(e: Expression) -> bool {
    e is Boolean || e is Cast || e is Field || e is Float || e is Integer || e is Null
}
pub open spec fn is_term(e: Expression) -> bool {
    is_leaf(e) || (e is Match && is_leaf(*e->Match_1))
}

// a Matrix cell only asks for synthetic one-character column keys below the table width (what matrix() builds)
pub open spec fn cell_keys_ok(cell: Expression, ids: Ids, width: nat) -> bool {
    forall|k: Seq<char>| #[trigger] asks(cell, ids, k) ==> k.len() > 0 && cache_index(k) < width
}

// Well-formedness: what loading must establish so that evaluation cannot hit a panic site (C03).
pub open spec fn wf(e: Expression, ids: Ids) -> bool
    decreases e,
{
    match e {
        Expression::BooleanGroup(op, g) => (op == BoolSym::And || op == BoolSym::Or)
            && forall|i: int| 0 <= i < g.len() ==> solvable(#[trigger] g[i]) && wf(g[i], ids),
        Expression::BooleanExpression(l, op, r) =>
            if is_cmp(op) { is_term(*l) && is_term(*r) } else { solvable(*l) && solvable(*r) && wf(*l, ids) && wf(*r, ids) },
        Expression::Identifier(i) => ids.contains_key(i),
        Expression::Match(_, x) => solvable(*x) && wf(*x, ids),
        Expression::Negate(x) => solvable(*x) && wf(*x, ids),
        Expression::Nested(_, x) => solvable(*x) && wf(*x, ids),
        Expression::Search(kind, _, _) => search_wf(kind),
        Expression::Matrix(cols, rows) => forall|j: int, i: int| 0 <= j < rows.len() && 0 <= i < rows[j].len() ==>
            rows[j].len() == cols.len()
            && ((#[trigger] rows[j][i]) is Some ==> solvable(rows[j][i]->Some_0) && wf(rows[j][i]->Some_0, ids) && !has_ident(rows[j][i]->Some_0)
                && cell_keys_ok(rows[j][i]->Some_0, ids, cols.len() as nat)),
        _ => true,
    }
}

// data-structure invariant of a merged search: the automaton reports only patterns that have a context entry
// (established by whoever builds the automaton from the needle list: parse_mapping / shake_1)
pub open spec fn search_wf(kind: Search) -> bool {
    match kind {
        Search::AhoCorasick(a, m, _) => forall|v: Seq<char>, k: int| 0 <= k < ac_hits(&*a, v).len()
            ==> pid(ac_pattern(#[trigger] ac_hits(&*a, v)[k])) < m@.len(),
        _ => true,
    }
}

// identifier bodies are well formed and contain no identifiers (so evaluation terminates)
#[verifier::opaque]
pub open spec fn ids_wf(ids: Ids) -> bool {
    forall|k: String| ids.contains_key(k) ==> solvable(#[trigger] ids[k]) && wf(ids[k], ids) && !has_ident(ids[k])
}

// ---------------------------------------------------------------- truth tables over sequences (C06)
pub open spec fn not3(r: SolverResult) -> SolverResult {
    match r { SolverResult::True => SolverResult::False, SolverResult::False => SolverResult::True, SolverResult::Missing => SolverResult::False }
}

pub open spec fn and3(s: Seq<SolverResult>) -> SolverResult
    decreases s.len(),
{
    if s.len() == 0 { SolverResult::True }
    else if s[0] == SolverResult::True { and3(s.skip(1)) }
    else { s[0] }
}

pub open spec fn any3(s: Seq<SolverResult>, r: SolverResult) -> bool {
    exists|i: int| 0 <= i < s.len() && s[i] == r
}

// opaque twin of any3(s, True), used where the quantifier must not leak into large queries
#[verifier::opaque]
pub open spec fn some_true(s: Seq<SolverResult>) -> bool { any3(s, SolverResult::True) }

pub open spec fn or3(s: Seq<SolverResult>) -> SolverResult {
    if any3(s, SolverResult::True) { SolverResult::True }
    else if any3(s, SolverResult::False) { SolverResult::False }
    else { SolverResult::Missing }
}

pub open spec fn count_true(s: Seq<SolverResult>) -> nat
    decreases s.len(),
{
    if s.len() == 0 { 0 } else { (if s.last() == SolverResult::True { 1nat } else { 0nat }) + count_true(s.drop_last()) }
}

pub open spec fn of3(s: Seq<SolverResult>, n: u64) -> SolverResult {
    if n == 0 {
        if any3(s, SolverResult::True) { SolverResult::False }
        else if any3(s, SolverResult::False) { SolverResult::True }
        else { SolverResult::Missing }
    } else {
        if count_true(s) >= n { SolverResult::True }
        else if any3(s, SolverResult::False) { SolverResult::False }
        else { SolverResult::Missing }
    }
}

// ---------------------------------------------------------------- comparisons and casts (C09)
pub ghost enum Opd { Val(V), Missing, False }


pub open spec fn cast_flt(v: V) -> Opd {
    match v {
        V::Bool(x) => Opd::Val(V::Float(if x { 1.0f64 } else { 0.0f64 })),
        V::Float(x) => Opd::Val(V::Float(x)),
        V::Int(x) => Opd::Val(V::Float(i64_as_f64(x))),
        V::Str(x) => match parse_f64(x) { Some(i) => Opd::Val(V::Float(i)), None => Opd::False },
        V::UInt(x) => Opd::Val(V::Float(u64_as_f64(x))),
        _ => Opd::False,
    }
}

pub open spec fn cast_int(v: V) -> Opd {
    match v {
        V::Bool(x) => Opd::Val(V::Int(if x { 1i64 } else { 0i64 })),
        V::Float(x) => Opd::Val(V::Int(f64_as_i64(f64_round(x)))),
        V::Int(x) => Opd::Val(V::Int(x)),
        V::Str(x) => match parse_i64(x) { Some(i) => Opd::Val(V::Int(i)), None => Opd::False },
        V::UInt(x) => if x <= i64::MAX as u64 { Opd::Val(V::Int(x as i64)) } else { Opd::False },
        _ => Opd::False,
    }
}

pub open spec fn operand(e: Expression, d: DocM) -> Opd {
    match e {
        Expression::Field(f) => match dm_find(d, f@) {
            None => Opd::Missing,
            Some(v) => if v is Float || v is Int || v is UInt { Opd::Val(v) } else { Opd::False },
        },
        Expression::Cast(f, ModSym::Flt) => match dm_find(d, f@) { None => Opd::Missing, Some(v) => cast_flt(v) },
        Expression::Cast(f, ModSym::Int) => match dm_find(d, f@) { None => Opd::Missing, Some(v) => cast_int(v) },
        Expression::Boolean(i) => Opd::Val(V::Bool(i)),
        Expression::Float(i) => Opd::Val(V::Float(i)),
        Expression::Integer(i) => Opd::Val(V::Int(i)),
        _ => Opd::False,
    }
}

// integer comparison over the mathematical integers; no wrap-around
pub open spec fn int_rel(op: BoolSym, x: int, y: int) -> bool {
    match op {
        BoolSym::Equal => x == y,
        BoolSym::GreaterThan => x > y,
        BoolSym::GreaterThanOrEqual => x >= y,
        BoolSym::LessThan => x < y,
        BoolSym::LessThanOrEqual => x <= y,
        _ => false,
    }
}

pub open spec fn flt_rel(op: BoolSym, x: f64, y: f64) -> bool {
    match op {
        BoolSym::Equal => f64_eq(x, y),
        BoolSym::GreaterThan => f64_gt(x, y),
        BoolSym::GreaterThanOrEqual => f64_ge(x, y),
        BoolSym::LessThan => f64_lt(x, y),
        BoolSym::LessThanOrEqual => f64_le(x, y),
        _ => false,
    }
}

pub open spec fn cmp_rel(x: V, op: BoolSym, y: V) -> bool {
    match (x, y) {
        (V::Bool(a), V::Bool(b)) => op == BoolSym::Equal && a == b,
        (V::Float(a), V::Float(b)) => flt_rel(op, a, b),
        (V::Int(a), V::Int(b)) => int_rel(op, a as int, b as int),
        (V::UInt(a), V::UInt(b)) => int_rel(op, a as int, b as int),
        // mixed signedness: only when the unsigned side fits in i64 (pinned behaviour, see DESIGN C09)
        (V::UInt(a), V::Int(b)) => a <= i64::MAX as u64 && int_rel(op, a as int, b as int),
        (V::Int(a), V::UInt(b)) => b <= i64::MAX as u64 && int_rel(op, a as int, b as int),
        _ => false,
    }
}

pub open spec fn v_to_string(v: V) -> Option<Seq<char>> {
    match v {
        V::Bool(b) => Some(bool_to_string(b)),
        V::Int(i) => Some(i64_to_string(i)),
        V::UInt(u) => Some(u64_to_string(u)),
        V::Float(f) => Some(f64_to_string(f)),
        V::Str(s) => Some(s),
        _ => None,
    }
}

pub open spec fn b3(b: bool) -> SolverResult { if b { SolverResult::True } else { SolverResult::False } }

pub open spec fn sem_cmp(l: Expression, op: BoolSym, r: Expression, d: DocM) -> SolverResult {
    match (l, op, r) {
        (Expression::Cast(lf, ModSym::Str), BoolSym::Equal, Expression::Cast(rf, ModSym::Str)) =>
            match dm_find(d, lf@) {
                None => SolverResult::Missing,
                Some(x) => match v_to_string(x) {
                    None => SolverResult::False,
                    Some(xs) => match dm_find(d, rf@) {
                        None => SolverResult::Missing,
                        Some(y) => match v_to_string(y) {
                            None => SolverResult::False,
                            Some(ys) => b3(xs == ys),
                        },
                    },
                },
            },
        (Expression::Field(lf), BoolSym::Equal, Expression::Boolean(b)) =>
            match dm_find(d, lf@) {
                None => SolverResult::Missing,
                Some(V::Bool(x)) => b3(x == b),
                Some(_) => SolverResult::False,
            },
        (Expression::Field(lf), BoolSym::Equal, Expression::Null) =>
            match dm_find(d, lf@) {
                None => SolverResult::Missing,
                Some(x) => b3(x is Null),
            },
        _ => match operand(l, d) {
            Opd::Missing => SolverResult::Missing,
            Opd::False => SolverResult::False,
            Opd::Val(x) => match operand(r, d) {
                Opd::Missing => SolverResult::Missing,
                Opd::False => SolverResult::False,
                Opd::Val(y) => b3(cmp_rel(x, op, y)),
            },
        },
    }
}

// ---------------------------------------------------------------- string search (C07)
pub open spec fn ac_accepts(m: Seq<MatchType>, h: aho_corasick::Match, v: Seq<char>) -> bool {
    pid(ac_pattern(h)) < m.len() && match m[pid(ac_pattern(h)) as int] {
        MatchType::Contains(_) => true,
        MatchType::EndsWith(_) => ac_end(h) == bytes(v).len(),
        MatchType::Exact(_) => ac_start(h) == 0 && ac_end(h) == bytes(v).len(),
        MatchType::StartsWith(_) => ac_start(h) == 0,
    }
}

pub open spec fn search_rel(kind: Search, v: Seq<char>) -> bool {
    match kind {
        Search::Any => true,
        Search::Exact(i) => i@ == v,
        Search::Contains(i) => b_contains(bytes(v), bytes(i@)),
        Search::EndsWith(i) => b_ends_with(bytes(v), bytes(i@)),
        Search::StartsWith(i) => b_starts_with(bytes(v), bytes(i@)),
        Search::Regex(r, _) => regex_is_match(&r, v),
        Search::RegexSet(s, _) => regexset_is_match(&s, v),
        Search::AhoCorasick(a, m, _) => exists|k: int| 0 <= k < ac_hits(&*a, v).len() && ac_accepts(m@, #[trigger] ac_hits(&*a, v)[k], v),
    }
}

// ---- counting the members of a merged search (C08): a member counts once, however often it occurs
pub open spec fn pat_hit(a: &AhoCorasick, m: Seq<MatchType>, v: Seq<char>, p: int) -> bool {
    exists|k: int| 0 <= k < ac_hits(a, v).len() && pid(ac_pattern(#[trigger] ac_hits(a, v)[k])) == p && ac_accepts(m, ac_hits(a, v)[k], v)
}
// number of members p < n with an accepted occurrence
pub open spec fn count_pats(a: &AhoCorasick, m: Seq<MatchType>, v: Seq<char>, n: int) -> nat
    decreases n,
{
    if n <= 0 { 0 } else { count_pats(a, m, v, n - 1) + (if pat_hit(a, m, v, n - 1) { 1nat } else { 0nat }) }
}
pub open spec fn ac_count(a: &AhoCorasick, m: Seq<MatchType>, v: Seq<char>) -> nat { count_pats(a, m, v, m.len() as int) }
// RegexSet: the number of member patterns that match (SetMatches yields each matching index once)
pub open spec fn rs_count(s: &RegexSet, v: Seq<char>) -> nat { regexset_hits(s, v).len() }

// the text a scalar is searched as when the key carries the str() cast
pub open spec fn scalar_text(v: V) -> Option<Seq<char>> {
    match v {
        V::Bool(b) => Some(bool_to_string(b)),
        V::Float(f) => Some(f64_to_string(f)),
        V::Int(i) => Some(i64_to_string(i)),
        V::UInt(u) => Some(u64_to_string(u)),
        _ => None,
    }
}

// text of an array element for searching: strings always, scalars only under the cast
pub open spec fn elem_text(v: V, cast: bool) -> Option<Seq<char>> {
    match v {
        V::Str(s) => Some(s),
        _ => if cast { scalar_text(v) } else { None },
    }
}

// some element of the array (strings always, scalars under the cast) satisfies the search
pub open spec fn elem_hit(kind: Search, e: V, cast: bool) -> bool {
    elem_text(e, cast) is Some && search_rel(kind, elem_text(e, cast)->Some_0)
}
#[verifier::opaque]
pub open spec fn search_array_rel(kind: Search, a: ArrM, cast: bool) -> bool {
    exists|k: int| 0 <= k < arr_elems(a).len() && #[trigger] elem_hit(kind, arr_elems(a)[k], cast)
}

pub open spec fn sem_search(kind: Search, f: Seq<char>, cast: bool, d: DocM) -> SolverResult {
    match dm_find(d, f) {
        None => SolverResult::Missing,
        Some(V::Str(x)) => b3(search_rel(kind, x)),
        Some(V::Array(a)) => b3(search_array_rel(kind, a, cast)),
        Some(v) => if cast && scalar_text(v) is Some { b3(search_rel(kind, scalar_text(v)->Some_0)) } else { SolverResult::Missing },
    }
}

// ---------------------------------------------------------------- keys a rule asks a document for (C16)
pub open spec fn operand_key(e: Expression) -> Option<Seq<char>> {
    match e {
        Expression::Field(f) => Some(f@),
        Expression::Cast(f, _) => Some(f@),
        _ => None,
    }
}

// asks(e, ids, k): evaluating e may call find(k) on the document it is evaluated against
pub open spec fn asks(e: Expression, ids: Ids, k: Seq<char>) -> bool
    decreases lvl(e), e,
    via asks_decreases
{
    match e {
        Expression::BooleanGroup(_, g) => exists|i: int| 0 <= i < g.len() && asks(#[trigger] g[i], ids, k),
        Expression::BooleanExpression(l, op, r) =>
            if is_cmp(op) { operand_key(*l) == Some(k) || operand_key(*r) == Some(k) }
            else { asks(*l, ids, k) || asks(*r, ids, k) },
        Expression::Identifier(i) => ids.contains_key(i) && !has_ident(ids[i]) && asks(ids[i], ids, k),
        Expression::Match(_, x) => asks(*x, ids, k),
        Expression::Negate(x) => asks(*x, ids, k),
        Expression::Nested(f, _) => f@ == k,
        Expression::Search(_, f, _) => f@ == k,
        Expression::Matrix(cols, _) => exists|i: int| 0 <= i < cols.len() && (#[trigger] cols[i])@ == k,
        Expression::Field(f) => f@ == k,
        Expression::Cast(f, _) => f@ == k,
        _ => false,
    }
}

#[via_fn]
proof fn asks_decreases(e: Expression, ids: Ids, k: Seq<char>) {
    reveal_with_fuel(has_ident, 3);
}

pub open spec fn permitted(e: Expression, ids: Ids, d: DocM) -> bool {
    forall|k: Seq<char>| asks(e, ids, k) ==> dm_permits(d, k)
}

// ---------------------------------------------------------------- the main recursion
// (still uninterpreted: a Matrix under all() under a nested key over an array)
pub uninterp spec fn sem_nested_array_matrix(cols: Vec<String>, rows: Vec<Vec<Option<Expression>>>, ids: Ids, a: ArrM) -> SolverResult;

// members of a merged search on one field value: how many of them match `x`
pub open spec fn member_count(kind: Search, x: Seq<char>) -> Option<(nat, nat)> {   // (matching, total)
    match kind {
        Search::AhoCorasick(a, m, _) => Some((ac_count(&*a, m@, x), m@.len())),
        Search::RegexSet(s, _) => Some((rs_count(&s, x), regexset_patterns(&s).len())),
        _ => None,
    }
}

// one array element: it has a searchable text and every member / at least n members match it
pub open spec fn elem_all(kind: Search, e: V, cast: bool) -> bool {
    elem_text(e, cast) is Some && member_count(kind, elem_text(e, cast)->Some_0)->Some_0.0 == member_count(kind, elem_text(e, cast)->Some_0)->Some_0.1
}
pub open spec fn elem_n(kind: Search, e: V, cast: bool, n: u64) -> bool {
    elem_text(e, cast) is Some && member_count(kind, elem_text(e, cast)->Some_0)->Some_0.0 >= n
}
// all(k) over a merged search: every member matches the value (for an array: some element is matched by all)
pub open spec fn all_members_array(kind: Search, a: ArrM, cast: bool) -> bool {
    exists|k: int| 0 <= k < arr_elems(a).len() && #[trigger] elem_all(kind, arr_elems(a)[k], cast)
}
pub open spec fn n_members_array(kind: Search, a: ArrM, cast: bool, n: u64) -> bool {
    exists|k: int| 0 <= k < arr_elems(a).len() && #[trigger] elem_n(kind, arr_elems(a)[k], cast, n)
}

pub open spec fn sem_all_merged(kind: Search, f: Seq<char>, cast: bool, d: DocM) -> SolverResult {
    match dm_find(d, f) {
        None => SolverResult::Missing,
        Some(V::Str(x)) => b3(member_count(kind, x)->Some_0.0 == member_count(kind, x)->Some_0.1),
        Some(V::Array(a)) => b3(all_members_array(kind, a, cast)),
        Some(v) => if cast && scalar_text(v) is Some {
            b3(member_count(kind, scalar_text(v)->Some_0)->Some_0.0 == member_count(kind, scalar_text(v)->Some_0)->Some_0.1)
        } else { SolverResult::Missing },
    }
}

// of(k, n>=1) over a merged search: at least n distinct members match; a value that matches fewer is False
pub open spec fn sem_of_merged(kind: Search, f: Seq<char>, cast: bool, n: u64, d: DocM) -> SolverResult {
    match dm_find(d, f) {
        None => SolverResult::Missing,
        Some(V::Str(x)) => b3(member_count(kind, x)->Some_0.0 >= n),
        Some(V::Array(a)) => b3(n_members_array(kind, a, cast, n)),
        Some(v) => if cast && scalar_text(v) is Some { b3(member_count(kind, scalar_text(v)->Some_0)->Some_0.0 >= n) } else { SolverResult::Missing },
    }
}

pub open spec fn is_merged(kind: Search) -> bool { kind is AhoCorasick || kind is RegexSet }

// all(..) applied to something that is not a group (after looking through an identifier)
pub open spec fn sem_all_leaf(t: Expression, ids: Ids, d: DocM) -> SolverResult
    decreases lvl(t), t, 2int,
{
    match t {
        Expression::Search(kind, f, cast) => if is_merged(kind) { sem_all_merged(kind, f@, cast, d) } else { sem3(t, ids, d) },
        Expression::Matrix(cols, rows) => rows_all_eval(cols, rows, 0, empty_cache(cols.len() as nat), ids, d, t),
        _ => sem3(t, ids, d),
    }
}

// of(.., n) applied to something that is not a group: of(0) negates (missing stays missing)
pub open spec fn sem_of_leaf(t: Expression, n: u64, ids: Ids, d: DocM) -> SolverResult
    decreases lvl(t), t, 2int,
{
    if n == 0 {
        match sem3(t, ids, d) { SolverResult::True => SolverResult::False, SolverResult::False => SolverResult::True, SolverResult::Missing => SolverResult::Missing }
    } else {
        match t {
            // a single predicate is a list of one member: of(.., n) over it follows the same table (never true for n >= 2)
            Expression::Search(kind, f, cast) => if is_merged(kind) { sem_of_merged(kind, f@, cast, n, d) } else { of3(seq![sem3(t, ids, d)], n) },
            Expression::Matrix(cols, rows) => rows_of_eval(cols, rows, 0, empty_cache(cols.len() as nat), 0, SolverResult::Missing, n, ids, d, t),
            _ => of3(seq![sem3(t, ids, d)], n),
        }
    }
}

// ---- Matrix(columns, rows): an or of rows, each row an and of its present cells; the value of column i is fetched
// from the document at most once (cache) and cell i is evaluated against the cache under the one-character key i.
pub open spec fn empty_cache(n: nat) -> Seq<Option<V>> { Seq::new(n, |i: int| None::<V>) }

// cells i.. of one row against the current cache: (row result so far, cache afterwards)
pub open spec fn row_eval(cols: Vec<String>, row: Vec<Option<Expression>>, i: int, cache: Seq<Option<V>>, ids: Ids, d: DocM, parent: Expression)
    -> (SolverResult, Seq<Option<V>>)
    decreases lvl(parent), parent, 0int, row.len() - i,
    when forall|k: int| 0 <= k < row.len() && (#[trigger] row[k]) is Some ==> decreases_to!(parent => row[k]->Some_0) && lvl(row[k]->Some_0) <= lvl(parent)
{
    if i < 0 || i >= row.len() || i >= cache.len() || i >= cols.len() { (SolverResult::True, cache) }
    else {
        match row[i] {
            None => row_eval(cols, row, i + 1, cache, ids, d, parent),
            Some(cell) => {
                let c2 = if cache[i] is None {
                    match dm_find(d, cols[i]@) { Some(v) => Some(cache.update(i, Some(v))), None => None }
                } else { Some(cache) };
                match c2 {
                    None => (SolverResult::Missing, cache),
                    Some(c) => match sem3(cell, ids, DocM::Cache(c)) {
                        SolverResult::True => row_eval(cols, row, i + 1, c, ids, d, parent),
                        r => (r, c),
                    },
                }
            },
        }
    }
}

// rows j.. : true as soon as a row is true, else false if some row was false, else missing
pub open spec fn rows_eval(cols: Vec<String>, rows: Vec<Vec<Option<Expression>>>, j: int, cache: Seq<Option<V>>, acc: SolverResult, ids: Ids, d: DocM, parent: Expression)
    -> SolverResult
    decreases lvl(parent), parent, 1int, rows.len() - j,
    when forall|a: int, b: int| 0 <= a < rows.len() && 0 <= b < rows[a].len() && (#[trigger] rows[a][b]) is Some
        ==> decreases_to!(parent => rows[a][b]->Some_0) && lvl(rows[a][b]->Some_0) <= lvl(parent)
{
    if j < 0 || j >= rows.len() { acc }
    else {
        let (hit, c2) = row_eval(cols, rows[j], 0, cache, ids, d, parent);
        match hit {
            SolverResult::True => SolverResult::True,
            SolverResult::False => rows_eval(cols, rows, j + 1, c2, SolverResult::False, ids, d, parent),
            SolverResult::Missing => rows_eval(cols, rows, j + 1, c2, acc, ids, d, parent),
        }
    }
}

// all(..) applied to a Matrix: every row must be true; the first row that is not decides
pub open spec fn rows_all_eval(cols: Vec<String>, rows: Vec<Vec<Option<Expression>>>, j: int, cache: Seq<Option<V>>, ids: Ids, d: DocM, parent: Expression)
    -> SolverResult
    decreases lvl(parent), parent, 1int, rows.len() - j,
    when forall|a: int, b: int| 0 <= a < rows.len() && 0 <= b < rows[a].len() && (#[trigger] rows[a][b]) is Some
        ==> decreases_to!(parent => rows[a][b]->Some_0) && lvl(rows[a][b]->Some_0) <= lvl(parent)
{
    if j < 0 || j >= rows.len() { SolverResult::True }
    else {
        let (hit, c2) = row_eval(cols, rows[j], 0, cache, ids, d, parent);
        match hit {
            SolverResult::True => rows_all_eval(cols, rows, j + 1, c2, ids, d, parent),
            r => r,
        }
    }
}
pub open spec fn sem_matrix_all(cols: Vec<String>, rows: Vec<Vec<Option<Expression>>>, ids: Ids, d: DocM) -> SolverResult {
    rows_all_eval(cols, rows, 0, empty_cache(cols.len() as nat), ids, d, Expression::Matrix(cols, rows))
}

// of(.., n >= 1) applied to a Matrix: true as soon as n rows are true, else false if some row was false, else missing
pub open spec fn rows_of_eval(cols: Vec<String>, rows: Vec<Vec<Option<Expression>>>, j: int, cache: Seq<Option<V>>, hits: nat, acc: SolverResult, n: u64, ids: Ids, d: DocM, parent: Expression)
    -> SolverResult
    decreases lvl(parent), parent, 1int, rows.len() - j,
    when forall|a: int, b: int| 0 <= a < rows.len() && 0 <= b < rows[a].len() && (#[trigger] rows[a][b]) is Some
        ==> decreases_to!(parent => rows[a][b]->Some_0) && lvl(rows[a][b]->Some_0) <= lvl(parent)
{
    if j < 0 || j >= rows.len() { acc }
    else {
        let (hit, c2) = row_eval(cols, rows[j], 0, cache, ids, d, parent);
        match hit {
            SolverResult::True => if hits + 1 >= n { SolverResult::True } else { rows_of_eval(cols, rows, j + 1, c2, hits + 1, acc, n, ids, d, parent) },
            SolverResult::False => rows_of_eval(cols, rows, j + 1, c2, hits, SolverResult::False, n, ids, d, parent),
            SolverResult::Missing => rows_of_eval(cols, rows, j + 1, c2, hits, acc, n, ids, d, parent),
        }
    }
}
pub open spec fn sem_matrix_of(cols: Vec<String>, rows: Vec<Vec<Option<Expression>>>, n: u64, ids: Ids, d: DocM) -> SolverResult {
    rows_of_eval(cols, rows, 0, empty_cache(cols.len() as nat), 0, SolverResult::Missing, n, ids, d, Expression::Matrix(cols, rows))
}

// results of the elements of a group, in written order
pub open spec fn sems(g: Vec<Expression>, ids: Ids, d: DocM, parent: Expression) -> Seq<SolverResult>
    decreases lvl(parent), parent, 0int,
    when forall|i: int| 0 <= i < g.len() ==> decreases_to!(parent => #[trigger] g[i]) && lvl(g[i]) <= lvl(parent)
{
    Seq::new(g.len() as nat, |i: int| if 0 <= i < g.len() { sem3(g[i], ids, d) } else { SolverResult::Missing })
}

// what all()/of() quantify over: an identifier is looked through; a group contributes its elements
pub open spec fn match_target(x: Expression, ids: Ids) -> Expression {
    match x {
        Expression::Identifier(i) => if ids.contains_key(i) && !has_ident(ids[i]) { ids[i] } else { x },
        _ => x,
    }
}

pub open spec fn sem3(e: Expression, ids: Ids, d: DocM) -> SolverResult
    decreases lvl(e), e, 1int,
    via sem3_decreases
{
    match e {
        Expression::BooleanGroup(BoolSym::And, g) => and3(sems(g, ids, d, e)),
        Expression::BooleanGroup(BoolSym::Or, g) => or3(sems(g, ids, d, e)),
        Expression::BooleanExpression(l, op, r) =>
            if op == BoolSym::And { and2(sem3(*l, ids, d), sem3(*r, ids, d)) }
            else if op == BoolSym::Or { or2(sem3(*l, ids, d), sem3(*r, ids, d)) }
            else { sem_cmp(*l, op, *r, d) },
        Expression::Identifier(i) =>
            if ids.contains_key(i) && !has_ident(ids[i]) { sem3(ids[i], ids, d) } else { SolverResult::Missing },
        Expression::Match(m, x) => {
            let t = match_target(*x, ids);
            match t {
                Expression::BooleanGroup(_, g) => match m {
                    Match::All => and3(sems(g, ids, d, t)),
                    Match::Of(n) => of3(sems(g, ids, d, t), n),
                },
                _ => match m {
                    Match::All => sem_all_leaf(t, ids, d),
                    Match::Of(n) => sem_of_leaf(t, n, ids, d),
                },
            }
        },
        Expression::Matrix(cols, rows) => rows_eval(cols, rows, 0, empty_cache(cols.len() as nat), SolverResult::Missing, ids, d, e),
        Expression::Negate(x) => not3(sem3(*x, ids, d)),
        Expression::Nested(f, x) => match dm_find(d, f@) {
            None => SolverResult::Missing,
            Some(V::Object(o)) => sem3(*x, ids, DocM::Obj(o)),
            Some(V::Array(a)) => sem_nested_array(*x, ids, a),
            Some(_) => SolverResult::False,
        },
        Expression::Search(kind, f, cast) => sem_search(kind, f@, cast, d),
        _ => SolverResult::Missing,
    }
}

#[via_fn]
proof fn sem3_decreases(e: Expression, ids: Ids, d: DocM) {
    reveal_with_fuel(has_ident, 3);
}

#[via_fn]
proof fn sem_nested_array_decreases(x: Expression, ids: Ids, a: ArrM) {
    reveal_with_fuel(has_ident, 4);
}

// a nested mapping over an array of objects: "some element satisfies it" (C10)
// result of a block on one array element: elements that are not objects are skipped (Missing is neutral for or3)
pub open spec fn elem_result(x: Expression, ids: Ids, v: V) -> SolverResult
    decreases lvl(x), x, 2int,
{
    match v { V::Object(o) => sem3(x, ids, DocM::Obj(o)), _ => SolverResult::Missing }
}

pub open spec fn obj_results(x: Expression, ids: Ids, elems: Seq<V>) -> Seq<SolverResult>
    decreases lvl(x), x, 3int,
{
    Seq::new(elems.len(), |k: int| elem_result(x, ids, elems[k]))
}

// the blocks of an all(..) over nested blocks: block j holds for some element (or3 over the elements)
pub open spec fn block_results(g: Vec<Expression>, ids: Ids, elems: Seq<V>, parent: Expression) -> Seq<SolverResult>
    decreases lvl(parent), parent, 3int,
    when forall|j: int| 0 <= j < g.len() ==> decreases_to!(parent => #[trigger] g[j]) && lvl(g[j]) <= lvl(parent)
{
    Seq::new(g.len() as nat, |j: int| if 0 <= j < g.len() { or3(obj_results(g[j], ids, elems)) } else { SolverResult::Missing })
}

pub open spec fn sem_nested_array(x: Expression, ids: Ids, a: ArrM) -> SolverResult
    decreases lvl(x), x, 4int,
    via sem_nested_array_decreases
{
    let elems = arr_elems(a);
    match x {
        Expression::Match(Match::All, inner) => match *inner {
            // all(..) over several nested blocks on one array: each block must hold for some element
            Expression::BooleanGroup(BoolSym::Or, g) => and3(block_results(g, ids, elems, *inner)),
            Expression::Matrix(cols, rows) => sem_nested_array_matrix(cols, rows, ids, a),
            _ => b3(some_true(obj_results(x, ids, elems))),
        },
        _ => b3(some_true(obj_results(x, ids, elems))),
    }
}

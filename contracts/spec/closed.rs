// ---- spec/closed.rs: the loader's token scan implies that every identifier of the parsed condition exists (C03)
//
// rule.rs walks the condition's TOKENS (slice ident_scan, unit scan); the solver needs the fact about the parsed TREE
// (closed: every Expression::Identifier names an entry).  This file proves the step between the two over the grammar
// function p_parse, to which the real parser is proved equal: an Identifier node only ever comes from an identifier
// token that the scan looks up - a token two places after a cast / not( modifier is that modifier's field.

// an expression can start at pos: after `not`, after an operator, or at the very beginning - never right after a modifier
pub open spec fn start_ok(ts: Seq<Token>, pos: int) -> bool {
    (pos == 0 || (0 < pos <= ts.len() && (ts[pos - 1] is Miscellaneous || ts[pos - 1] is Operator)))
    && (pos < 2 || !(ts[pos - 2] is Modifier))
}
// an expression ends with an atom or a closing parenthesis - never with a modifier
pub open spec fn end_ok(ts: Seq<Token>, p: int) -> bool {
    1 <= p <= ts.len() && (is_rp(ts[p - 1]) || ts[p - 1] is Identifier || ts[p - 1] is Integer || ts[p - 1] is Float)
}

// where split_acc stops collecting
pub open spec fn split_end(ts: Seq<Token>, pos: int, depth: int) -> int
    decreases ts.len() - pos,
{
    if pos < 0 || pos >= ts.len() { pos }
    else if is_rp(ts[pos]) && depth == 1 { pos }
    else {
        let d2 = if is_lp(ts[pos]) { depth + 1 } else if is_rp(ts[pos]) { depth - 1 } else { depth };
        split_end(ts, pos + 1, d2)
    }
}

pub proof fn lemma_split(ts: Seq<Token>, pos: int, depth: int, acc: Seq<Token>)
    requires 0 <= pos <= ts.len(),
    ensures
        pos <= split_end(ts, pos, depth) <= ts.len(),
        split_acc(ts, pos, depth, acc).0 == acc + ts.subrange(pos, split_end(ts, pos, depth)),
        split_acc(ts, pos, depth, acc).1 == (if split_end(ts, pos, depth) < ts.len() { split_end(ts, pos, depth) + 1 } else { ts.len() as int }),
        split_end(ts, pos, depth) < ts.len() ==> is_rp(ts[split_end(ts, pos, depth)]),
    decreases ts.len() - pos,
{
    if pos >= ts.len() {
        assert(ts.subrange(pos, pos) =~= Seq::<Token>::empty());
        assert(acc + Seq::<Token>::empty() =~= acc);
    } else if is_rp(ts[pos]) && depth == 1 {
        assert(ts.subrange(pos, pos) =~= Seq::<Token>::empty());
        assert(acc + Seq::<Token>::empty() =~= acc);
    } else {
        let d2 = if is_lp(ts[pos]) { depth + 1 } else if is_rp(ts[pos]) { depth - 1 } else { depth };
        lemma_split(ts, pos + 1, d2, acc.push(ts[pos]));
        let e = split_end(ts, pos + 1, d2);
        assert(acc.push(ts[pos]) + ts.subrange(pos + 1, e) =~= acc + ts.subrange(pos, e));
    }
}

// a contiguous part of a scanned token sequence that starts where an expression may start is scanned
pub proof fn lemma_sub_scanned(ts: Seq<Token>, a: int, b: int, names: Set<String>)
    requires
        scanned(ts, names), 1 <= a <= b <= ts.len(),
        is_lp(ts[a - 1]),
        a < 2 || !(ts[a - 2] is Modifier),
    ensures scanned(ts.subrange(a, b), names),
{
    let inner = ts.subrange(a, b);
    assert forall|j: int| #[trigger] tok_checked(inner, j) implies names.contains(inner[j]->Identifier_0) by {
        let i = a + j;
        assert(inner[j] == ts[i]);
        if j > 1 { assert(inner[j - 2] == ts[i - 2]); }
        assert(tok_checked(ts, i));
    }
}

pub proof fn lemma_closed_nud(ts: Seq<Token>, pos: int, names: Set<String>)
    requires scanned(ts, names), start_ok(ts, pos), p_nud(ts, pos) is Some,
    ensures
        closed_in(p_nud(ts, pos)->Some_0.0, names),
        end_ok(ts, p_nud(ts, pos)->Some_0.1),
        p_nud(ts, pos)->Some_0.1 > pos,
    decreases ts.len() - pos, 1int,
{
    reveal_with_fuel(closed_in, 3);
    let t = ts[pos];
    match t {
        Token::Delimiter(DelSym::LeftParenthesis) => {
            lemma_split(ts, pos + 1, 1, Seq::empty());
            let end = split_end(ts, pos + 1, 1);
            let (inner, after) = split_acc(ts, pos + 1, 1, Seq::empty());
            assert(Seq::<Token>::empty() + ts.subrange(pos + 1, end) =~= ts.subrange(pos + 1, end));
            assert(inner == ts.subrange(pos + 1, end));
            lemma_sub_scanned(ts, pos + 1, end, names);
            assert(p_parse(inner) is Some);
            lemma_closed_parse(inner, names);
            assert(p_nud(ts, pos)->Some_0.0 == p_parse(inner)->Some_0);
            // the group ends with its closing parenthesis, or (implicit close) with the last token of what is inside
            if end < ts.len() { assert(is_rp(ts[after - 1])); } else {
                assert(end_ok(inner, inner.len() as int));
                assert(inner[inner.len() - 1] == ts[ts.len() - 1]);
            }
        },
        Token::Identifier(n) => {
            assert(tok_checked(ts, pos));
            assert(p_nud(ts, pos)->Some_0.0 == Expression::Identifier(n));
        },
        Token::Miscellaneous(_) => {
            assert(start_ok(ts, pos + 1));
            assert(p_expr(ts, pos + 1, 95) is Some);
            lemma_closed_expr(ts, pos + 1, 95, names);
            assert(p_nud(ts, pos)->Some_0.0 == Expression::Negate(Box::new(p_expr(ts, pos + 1, 95)->Some_0.0)));
        },
        Token::Modifier(m) => {
            assert(p_nud(ts, pos)->Some_0.0 is Cast);
        },
        Token::Match(MatchSym::All) => {
            // all ( X ): X is two places after the Match token, which is not a modifier
            assert(p_wrapped(ts, pos + 1) is Some);
            assert(tok_checked(ts, pos + 2));
            assert(p_nud(ts, pos)->Some_0.0 == Expression::Match(Match::All, Box::new(Expression::Identifier(ts[pos + 2]->Identifier_0))));
        },
        Token::Match(MatchSym::Of) => {
            assert(tok_checked(ts, pos + 2));
            assert(p_nud(ts, pos)->Some_0.0 is Match && *p_nud(ts, pos)->Some_0.0->Match_1 == Expression::Identifier(ts[pos + 2]->Identifier_0));
        },
        _ => {},
    }
}

pub proof fn lemma_closed_led(left: Expression, ts: Seq<Token>, pos: int, names: Set<String>)
    requires scanned(ts, names), closed_in(left, names), end_ok(ts, pos), p_led(left, ts, pos) is Some,
    ensures
        closed_in(p_led(left, ts, pos)->Some_0.0, names),
        end_ok(ts, p_led(left, ts, pos)->Some_0.1),
    decreases ts.len() - pos, 1int,
{
    match ts[pos] {
        Token::Operator(op) => {
            assert(start_ok(ts, pos + 1));
            lemma_closed_expr(ts, pos + 1, bp(ts[pos]), names);
        },
        _ => {},
    }
}

pub proof fn lemma_closed_loop(left: Expression, ts: Seq<Token>, pos: int, rbp: u8, names: Set<String>)
    requires scanned(ts, names), closed_in(left, names), end_ok(ts, pos), p_loop(left, ts, pos, rbp) is Some,
    ensures
        closed_in(p_loop(left, ts, pos, rbp)->Some_0.0, names),
        end_ok(ts, p_loop(left, ts, pos, rbp)->Some_0.1),
    decreases ts.len() - pos, 2int,
{
    if !(pos < 0 || pos >= ts.len() || rbp >= bp(ts[pos])) {
        lemma_closed_led(left, ts, pos, names);
        let (l2, p2) = p_led(left, ts, pos)->Some_0;
        lemma_closed_loop(l2, ts, p2, rbp, names);
    }
}

pub proof fn lemma_closed_expr(ts: Seq<Token>, pos: int, rbp: u8, names: Set<String>)
    requires scanned(ts, names), start_ok(ts, pos), p_expr(ts, pos, rbp) is Some,
    ensures
        closed_in(p_expr(ts, pos, rbp)->Some_0.0, names),
        end_ok(ts, p_expr(ts, pos, rbp)->Some_0.1),
    decreases ts.len() - pos, 3int,
{
    lemma_closed_nud(ts, pos, names);
    let (left, p1) = p_nud(ts, pos)->Some_0;
    lemma_closed_loop(left, ts, p1, rbp, names);
}

// the theorem: what the scan accepts and the parser returns is closed
pub proof fn lemma_closed_parse(ts: Seq<Token>, names: Set<String>)
    requires scanned(ts, names), p_parse(ts) is Some,
    ensures
        closed_in(p_parse(ts)->Some_0, names),   // P:C03
        end_ok(ts, ts.len() as int),
    decreases ts.len(), 4int,
{
    lemma_closed_expr(ts, 0, 0, names);
}

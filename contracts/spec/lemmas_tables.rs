// ---- spec/lemmas_tables.rs: lemmas over the truth tables (C06, C17) used by the solver proofs

pub open spec fn and2(a: SolverResult, b: SolverResult) -> SolverResult {
    if a == SolverResult::True { b } else { a }
}

pub open spec fn or2(a: SolverResult, b: SolverResult) -> SolverResult {
    if a == SolverResult::True || b == SolverResult::True { SolverResult::True }
    else if a == SolverResult::Missing && b == SolverResult::Missing { SolverResult::Missing }
    else { SolverResult::False }
}

pub proof fn lemma_and3_skip(s: Seq<SolverResult>, k: int)
    requires 0 <= k <= s.len(), forall|j: int| 0 <= j < k ==> s[j] == SolverResult::True,
    ensures and3(s) == and3(s.skip(k)),
    decreases k,
{
    if k > 0 {
        lemma_and3_skip(s.skip(1), k - 1);
        assert(s.skip(1).skip(k - 1) =~= s.skip(k));
    } else {
        assert(s.skip(0) =~= s);
    }
}

// and3 is "the first non-true element, else true"
pub proof fn lemma_and3_first(s: Seq<SolverResult>, k: int)
    requires 0 <= k < s.len(), forall|j: int| 0 <= j < k ==> s[j] == SolverResult::True, s[k] != SolverResult::True,
    ensures and3(s) == s[k],
{
    lemma_and3_skip(s, k);
}

pub proof fn lemma_and3_all_true(s: Seq<SolverResult>)
    requires forall|j: int| 0 <= j < s.len() ==> s[j] == SolverResult::True,
    ensures and3(s) == SolverResult::True,
{
    lemma_and3_skip(s, s.len() as int);
}

pub proof fn lemma_and3_true_iff(s: Seq<SolverResult>)
    ensures (and3(s) == SolverResult::True) <==> (forall|j: int| 0 <= j < s.len() ==> s[j] == SolverResult::True),
    decreases s.len(),
{
    if s.len() > 0 {
        lemma_and3_true_iff(s.skip(1));
        if s[0] == SolverResult::True {
            if and3(s) == SolverResult::True {
                assert forall|j: int| 0 <= j < s.len() implies s[j] == SolverResult::True by {
                    if j > 0 { assert(s.skip(1)[j - 1] == s[j]); }
                }
            }
            if forall|j: int| 0 <= j < s.len() ==> s[j] == SolverResult::True {
                assert forall|j: int| 0 <= j < s.skip(1).len() implies s.skip(1)[j] == SolverResult::True by {
                    assert(s.skip(1)[j] == s[j + 1]);
                }
            }
        }
    }
}

pub proof fn lemma_and2(a: SolverResult, b: SolverResult)
    ensures and3(seq![a, b]) == and2(a, b),
{
    let s = seq![a, b];
    reveal_with_fuel(and3, 3);
    assert(s.skip(1) =~= seq![b]);
    assert(seq![b].skip(1) =~= Seq::<SolverResult>::empty());
}

pub proof fn lemma_or2(a: SolverResult, b: SolverResult)
    ensures or3(seq![a, b]) == or2(a, b),
{
    let s = seq![a, b];
    assert(s[0] == a && s[1] == b);
}

pub proof fn lemma_count_true_step(s: Seq<SolverResult>, k: int)
    requires 0 <= k < s.len(),
    ensures count_true(s.take(k + 1)) == count_true(s.take(k)) + (if s[k] == SolverResult::True { 1nat } else { 0nat }),
{
    assert(s.take(k + 1).drop_last() =~= s.take(k));
    assert(s.take(k + 1).last() == s[k]);
}

pub proof fn lemma_count_true_mono(s: Seq<SolverResult>, k: int)
    requires 0 <= k <= s.len(),
    ensures count_true(s.take(k)) <= count_true(s),
    decreases s.len() - k,
{
    if k < s.len() {
        lemma_count_true_step(s, k);
        lemma_count_true_mono(s, k + 1);
    } else {
        assert(s.take(k) =~= s);
    }
}

pub proof fn lemma_count_true_bound(s: Seq<SolverResult>)
    ensures count_true(s) <= s.len(),
    decreases s.len(),
{
    if s.len() > 0 { lemma_count_true_bound(s.drop_last()); }
}


// of(.., n) over a list of one member
pub proof fn lemma_of3_single(r: SolverResult, n: u64)
    ensures
        n == 0 ==> of3(seq![r], n) == (match r { SolverResult::True => SolverResult::False, SolverResult::False => SolverResult::True, SolverResult::Missing => SolverResult::Missing }),
        n == 1 ==> of3(seq![r], n) == r,
        n >= 2 ==> of3(seq![r], n) == (if r == SolverResult::True { SolverResult::Missing } else { r }),
{
    let s = seq![r];
    assert(s[0] == r);
    assert(s.drop_last() =~= Seq::<SolverResult>::empty());
    assert(s.last() == r);
    reveal_with_fuel(count_true, 2);
    assert(count_true(s) == (if r == SolverResult::True { 1nat } else { 0nat }));
    if r == SolverResult::True { assert(any3(s, SolverResult::True)); }
    if r == SolverResult::False { assert(any3(s, SolverResult::False)); }
}

// ---- C17: the order of operands never decides whether and/or is true
// s2 is s1 reordered by the index map f (f is onto, so every operand is still there)
pub open spec fn covers(f: Seq<int>, j: int) -> bool { exists|i: int| 0 <= i < f.len() && #[trigger] f[i] == j }
pub open spec fn reordering(s1: Seq<SolverResult>, s2: Seq<SolverResult>, f: Seq<int>) -> bool {
    s1.len() == s2.len() && s2.len() == f.len()
    && (forall|i: int| 0 <= i < f.len() ==> 0 <= #[trigger] f[i] < s1.len() && s2[i] == s1[f[i]])
    && (forall|j: int| 0 <= j < s1.len() ==> #[trigger] covers(f, j))
}

pub proof fn lemma_reorder_same_values(s1: Seq<SolverResult>, s2: Seq<SolverResult>, f: Seq<int>, r: SolverResult)
    requires reordering(s1, s2, f),
    ensures any3(s1, r) == any3(s2, r),
{
    if any3(s1, r) {
        let j = choose|j: int| 0 <= j < s1.len() && s1[j] == r;
        assert(covers(f, j));
        let i = choose|i: int| 0 <= i < f.len() && #[trigger] f[i] == j;
        assert(s2[i] == r);
    }
    if any3(s2, r) {
        let i = choose|i: int| 0 <= i < s2.len() && s2[i] == r;
        assert(s1[f[i]] == r);
    }
}

// 'or' is invariant under any reordering of its operands (all three values)
pub proof fn lemma_or3_reorder(s1: Seq<SolverResult>, s2: Seq<SolverResult>, f: Seq<int>)
    requires reordering(s1, s2, f),
    ensures or3(s2) == or3(s1),   // P:C17
{
    lemma_reorder_same_values(s1, s2, f, SolverResult::True);
    lemma_reorder_same_values(s1, s2, f, SolverResult::False);
}

// whether 'and' / all(..) is TRUE is invariant under any reordering (which non-true value it yields is not)
pub proof fn lemma_and3_truth_reorder(s1: Seq<SolverResult>, s2: Seq<SolverResult>, f: Seq<int>)
    requires reordering(s1, s2, f),
    ensures (and3(s2) == SolverResult::True) == (and3(s1) == SolverResult::True),   // P:C17
{
    lemma_and3_true_iff(s1);
    lemma_and3_true_iff(s2);
    if forall|j: int| 0 <= j < s1.len() ==> s1[j] == SolverResult::True {
        assert forall|i: int| 0 <= i < s2.len() implies s2[i] == SolverResult::True by { assert(s2[i] == s1[f[i]]); }
    }
    if forall|i: int| 0 <= i < s2.len() ==> s2[i] == SolverResult::True {
        assert forall|j: int| 0 <= j < s1.len() implies s1[j] == SolverResult::True by {
            assert(covers(f, j));
            let i = choose|i: int| 0 <= i < f.len() && #[trigger] f[i] == j;
            assert(s2[i] == s1[j]);
        }
    }
}

pub proof fn lemma_binary_commute(a: SolverResult, b: SolverResult)
    ensures
        or2(a, b) == or2(b, a),   // P:C17
        (and2(a, b) == SolverResult::True) == (and2(b, a) == SolverResult::True),   // P:C17
{
}

// of(.., 0) ("none true") is order-free as well
pub proof fn lemma_of0_reorder(s1: Seq<SolverResult>, s2: Seq<SolverResult>, f: Seq<int>)
    requires reordering(s1, s2, f),
    ensures of3(s2, 0) == of3(s1, 0),
{
    lemma_reorder_same_values(s1, s2, f, SolverResult::True);
    lemma_reorder_same_values(s1, s2, f, SolverResult::False);
}

// ---- C06: the tables as the statement words them
pub proof fn lemma_tables_as_stated(s: Seq<SolverResult>, n: u64)
    ensures
        // or: true if any operand is true, else false if any is false, else missing
        (or3(s) == SolverResult::True) == any3(s, SolverResult::True),   // P:C06
        (or3(s) == SolverResult::False) == (!any3(s, SolverResult::True) && any3(s, SolverResult::False)),   // P:C06
        // and / all: true exactly when every operand is true
        (and3(s) == SolverResult::True) == (forall|j: int| 0 <= j < s.len() ==> s[j] == SolverResult::True),   // P:C06
        // of(n >= 1): true exactly when at least n operands are true;  of(0): none is true
        n >= 1 ==> ((of3(s, n) == SolverResult::True) == (count_true(s) >= n)),   // P:C06,C08
        (of3(s, 0) != SolverResult::False) == !any3(s, SolverResult::True),   // P:C06,C08
        // not: swaps true and false, missing becomes false
        not3(SolverResult::True) == SolverResult::False && not3(SolverResult::False) == SolverResult::True
            && not3(SolverResult::Missing) == SolverResult::False,   // P:C06
{
    lemma_and3_true_iff(s);
}

// ---- flattening lemmas (used by the optimiser proofs, C01)
pub proof fn lemma_and3_concat(a: Seq<SolverResult>, b: Seq<SolverResult>)
    ensures and3(a + b) == and2(and3(a), and3(b)),
    decreases a.len(),
{
    if a.len() == 0 {
        assert(a + b =~= b);
    } else {
        assert((a + b).skip(1) =~= a.skip(1) + b);
        assert((a + b)[0] == a[0]);
        lemma_and3_concat(a.skip(1), b);
    }
}

pub proof fn lemma_or3_concat(a: Seq<SolverResult>, b: Seq<SolverResult>)
    ensures or3(a + b) == or2(or3(a), or3(b)),
{
    let s = a + b;
    assert forall|r: SolverResult| any3(s, r) == (any3(a, r) || any3(b, r)) by {
        if any3(a, r) { let i = choose|i: int| 0 <= i < a.len() && a[i] == r; assert(s[i] == r); }
        if any3(b, r) { let i = choose|i: int| 0 <= i < b.len() && b[i] == r; assert(s[a.len() + i] == r); }
        if any3(s, r) {
            let i = choose|i: int| 0 <= i < s.len() && s[i] == r;
            if i < a.len() { assert(a[i] == r); } else { assert(b[i - a.len()] == r); }
        }
    }
}

pub proof fn lemma_single(r: SolverResult)
    ensures and3(seq![r]) == r, or3(seq![r]) == r,
{
    let s = seq![r];
    assert(s[0] == r);
    assert(s.skip(1) =~= Seq::<SolverResult>::empty());
    reveal_with_fuel(and3, 2);
    if r == SolverResult::True { assert(any3(s, SolverResult::True)); }
    if r == SolverResult::False { assert(any3(s, SolverResult::False)); }
}

// ---- C17 for of(.., n >= 1): the number of true operands is invariant under a bijective reordering
pub open spec fn t1(r: SolverResult) -> nat { if r == SolverResult::True { 1 } else { 0 } }

pub proof fn lemma_count_remove(s: Seq<SolverResult>, j: int)
    requires 0 <= j < s.len(),
    ensures count_true(s) == count_true(s.remove(j)) + t1(s[j]),
    decreases s.len(),
{
    if j == s.len() - 1 {
        assert(s.remove(j) =~= s.drop_last());
    } else {
        let s2 = s.drop_last();
        lemma_count_remove(s2, j);
        assert(s.remove(j).drop_last() =~= s2.remove(j));
        assert(s.remove(j).last() == s.last());
        assert(s2[j] == s[j]);
    }
}

pub open spec fn injective(f: Seq<int>) -> bool {
    forall|a: int, b: int| 0 <= a < f.len() && 0 <= b < f.len() && a != b ==> f[a] != f[b]
}

pub proof fn lemma_count_true_reorder(s1: Seq<SolverResult>, s2: Seq<SolverResult>, f: Seq<int>)
    requires reordering(s1, s2, f), injective(f),
    ensures count_true(s2) == count_true(s1),   // P:C17
    decreases s2.len(),
{
    if s2.len() > 0 {
        let n = s2.len() as int;
        let j = f[n - 1];
        let s2p = s2.drop_last();
        let s1p = s1.remove(j);
        let fp = Seq::new((n - 1) as nat, |i: int| if f[i] < j { f[i] } else { f[i] - 1 });
        assert(reordering(s1p, s2p, fp)) by {
            assert forall|i: int| 0 <= i < fp.len() implies 0 <= #[trigger] fp[i] < s1p.len() && s2p[i] == s1p[fp[i]] by {
                assert(f[i] != j);
                assert(s2[i] == s1[f[i]]);
            }
            assert forall|k: int| 0 <= k < s1p.len() implies #[trigger] covers(fp, k) by {
                let k0 = if k < j { k } else { k + 1 };
                assert(covers(f, k0));
                let i = choose|i: int| 0 <= i < f.len() && #[trigger] f[i] == k0;
                assert(i != n - 1);
                assert(fp[i] == k);
            }
        }
        assert(injective(fp)) by {
            assert forall|a: int, b: int| 0 <= a < fp.len() && 0 <= b < fp.len() && a != b implies fp[a] != fp[b] by {
                assert(f[a] != f[b]); assert(f[a] != j); assert(f[b] != j);
            }
        }
        lemma_count_true_reorder(s1p, s2p, fp);
        lemma_count_remove(s1, j);
        assert(s2.last() == s1[j]);
    }
}

// of(.., n) for every n is invariant under a bijective reordering
pub proof fn lemma_of_reorder(s1: Seq<SolverResult>, s2: Seq<SolverResult>, f: Seq<int>, n: u64)
    requires reordering(s1, s2, f), injective(f),
    ensures of3(s2, n) == of3(s1, n),   // P:C17
{
    lemma_count_true_reorder(s1, s2, f);
    lemma_reorder_same_values(s1, s2, f, SolverResult::True);
    lemma_reorder_same_values(s1, s2, f, SolverResult::False);
}

// ---- scanning an or3 from the left while no operand has been true: the running result after n operands
pub open spec fn or_scan(s: Seq<SolverResult>, n: int) -> SolverResult
    decreases n,
{
    if n <= 0 { SolverResult::Missing } else if s[n - 1] == SolverResult::False { SolverResult::False } else { or_scan(s, n - 1) }
}

pub proof fn lemma_or_scan(s: Seq<SolverResult>, n: int)
    requires 0 <= n <= s.len(), forall|k: int| 0 <= k < n ==> s[k] != SolverResult::True,
    ensures
        or_scan(s, n) != SolverResult::True,
        (or_scan(s, n) == SolverResult::False) <==> (exists|k: int| 0 <= k < n && s[k] == SolverResult::False),
    decreases n,
{
    if n > 0 {
        lemma_or_scan(s, n - 1);
        if s[n - 1] != SolverResult::False && or_scan(s, n) == SolverResult::False {
            let k = choose|k: int| 0 <= k < n - 1 && s[k] == SolverResult::False;
            assert(s[k] == SolverResult::False);
        }
    }
}

pub proof fn lemma_or_scan_all(s: Seq<SolverResult>)
    requires forall|k: int| 0 <= k < s.len() ==> s[k] != SolverResult::True,
    ensures or3(s) == or_scan(s, s.len() as int),
{
    lemma_or_scan(s, s.len() as int);
}

pub proof fn lemma_or3_true(s: Seq<SolverResult>, k: int)
    requires 0 <= k < s.len(), s[k] == SolverResult::True,
    ensures or3(s) == SolverResult::True,
{
}

// ---- spec/shape.rs: syntactic predicates shared by the front-end and solver units

pub open spec fn solvable(e: Expression) -> bool {
    match e {
        Expression::Boolean(_) | Expression::Cast(_, _) | Expression::Field(_) | Expression::Float(_)
        | Expression::Integer(_) | Expression::Null => false,
        _ => true,
    }
}

pub open spec fn is_cmp(op: BoolSym) -> bool {
    op == BoolSym::Equal || op == BoolSym::GreaterThan || op == BoolSym::GreaterThanOrEqual
        || op == BoolSym::LessThan || op == BoolSym::LessThanOrEqual
}


// ---- spec/rewrite.rs: what the rewrite pass must preserve (C01 "optimising never panics", C03, C16)
//
// The regex LANGUAGE is uninterpreted here, so "a leading/trailing `.*` is redundant for an unanchored search" cannot
// be decided; what is proved is that the pass cannot panic, keeps every search on its field with its cast and case
// flags and its kind, and returns a well-formed expression.

pub open spec fn same_shape(r: Search, s: Search) -> bool {
    match (r, s) {
        (Search::Regex(_, i2), Search::Regex(_, i)) => i2 == i,
        (Search::RegexSet(_, i2), Search::RegexSet(_, i)) => i2 == i,
        _ => r == s,
    }
}

// r is e with some regex searches rebuilt
pub open spec fn rw_rel(r: Expression, e: Expression) -> bool
    decreases e,
{
    match (r, e) {
        (Expression::BooleanGroup(o2, g2), Expression::BooleanGroup(o, g)) => o2 == o && g2.len() == g.len() && forall|i: int| 0 <= i < g.len() ==> rw_rel(g2[i], #[trigger] g[i]),
        (Expression::BooleanExpression(l2, o2, r2), Expression::BooleanExpression(l, o, r1)) => o2 == o && rw_rel(*l2, *l) && rw_rel(*r2, *r1),
        (Expression::Match(m2, x2), Expression::Match(m, x)) => m2 == m && rw_rel(*x2, *x),
        (Expression::Negate(x2), Expression::Negate(x)) => rw_rel(*x2, *x),
        (Expression::Nested(f2, x2), Expression::Nested(f, x)) => f2 == f && rw_rel(*x2, *x),
        (Expression::Search(k2, f2, c2), Expression::Search(k, f, c)) => f2 == f && c2 == c && same_shape(k2, k),
        _ => r == e,
    }
}

pub proof fn lemma_rw_refl(e: Expression)
    ensures rw_rel(e, e),
    decreases e,
{
    match e {
        Expression::BooleanGroup(_, g) => { assert forall|i: int| 0 <= i < g.len() implies rw_rel(g[i], #[trigger] g[i]) by { lemma_rw_refl(g[i]); } },
        Expression::BooleanExpression(l, _, r) => { lemma_rw_refl(*l); lemma_rw_refl(*r); },
        Expression::Match(_, x) => { lemma_rw_refl(*x); },
        Expression::Negate(x) => { lemma_rw_refl(*x); },
        Expression::Nested(_, x) => { lemma_rw_refl(*x); },
        _ => {},
    }
}

// the relation keeps well-formedness, solvability, operands of comparisons and the keys asked of a document
pub proof fn lemma_rw_wf(r: Expression, e: Expression, ids: Ids)
    requires rw_rel(r, e),
    ensures
        solvable(r) == solvable(e),
        is_leaf(e) ==> r == e,
        is_term(e) ==> is_term(r),
        wf(e, ids) ==> wf(r, ids),   // P:C03
    decreases e,
{
    match (r, e) {
        (Expression::BooleanGroup(o2, g2), Expression::BooleanGroup(o, g)) => {
            assert forall|i: int| 0 <= i < g.len() implies solvable(g2[i]) == solvable(#[trigger] g[i]) && (wf(g[i], ids) ==> wf(g2[i], ids)) by { lemma_rw_wf(g2[i], g[i], ids); }
            if wf(e, ids) {
                assert forall|i: int| 0 <= i < g2.len() implies solvable(#[trigger] g2[i]) && wf(g2[i], ids) by { assert(solvable(g[i]) && wf(g[i], ids)); }
            }
        },
        (Expression::BooleanExpression(l2, o2, r2), Expression::BooleanExpression(l, o, r1)) => { lemma_rw_wf(*l2, *l, ids); lemma_rw_wf(*r2, *r1, ids); },
        (Expression::Match(m2, x2), Expression::Match(m, x)) => { lemma_rw_wf(*x2, *x, ids); },
        (Expression::Negate(x2), Expression::Negate(x)) => { lemma_rw_wf(*x2, *x, ids); },
        (Expression::Nested(f2, x2), Expression::Nested(f, x)) => { lemma_rw_wf(*x2, *x, ids); },
        _ => {},
    }
}

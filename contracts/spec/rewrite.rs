// ---- spec/rewrite.rs: what the rewrite pass must preserve (C01 "optimising never panics", C03, C16)
//
// The regex LANGUAGE is uninterpreted here, so "a leading/trailing `.*` is redundant for an unanchored search" cannot
// be decided; what is proved is that the pass cannot panic, keeps every search on its field with its cast and case
// flags and its kind, and returns a well-formed expression.

// what rewrite_search does to one pattern text: an optional leading and an optional trailing `.*` are dropped
// (an unanchored search for `.*X.*` finds what a search for `X` finds - the regex-language fact this pass relies on, assumed)
pub open spec fn dotstar() -> Seq<char> { seq!['.', '*'] }
pub open spec fn strip_head(t: Seq<char>) -> Seq<char> { if prefix_of(dotstar(), t) { t.skip(2) } else { t } }
pub open spec fn strip_tail(t: Seq<char>) -> Seq<char> { if suffix_of(dotstar(), t) { t.take(t.len() - 2) } else { t } }
pub open spec fn stripped(t: Seq<char>) -> Seq<char> { strip_tail(strip_head(t)) }
pub open spec fn stripped_all(ts: Seq<Seq<char>>) -> Seq<Seq<char>> { Seq::new(ts.len(), |i: int| stripped(ts[i])) }

// a rebuilt regex search: the recorded case flag is kept, and the regex (set) is either the old one or the one the regex
// crate builds from the stripped pattern text(s) - same number, same order - WITH THAT SAME FLAG
pub open spec fn same_shape(r: Search, s: Search) -> bool {
    match (r, s) {
        (Search::Regex(r2, i2), Search::Regex(r1, i)) => i2 == i && (r2 == r1 || regex_of(stripped(regex_text(&r1)), i) == Some(r2)),
        (Search::RegexSet(s2, i2), Search::RegexSet(s1, i)) => i2 == i && (s2 == s1 || rs_of(&s2, stripped_all(texts(regexset_patterns(&s1))), i)),
        _ => r == s,
    }
}

// r is e with some regex searches rebuilt
pub open spec fn rw_rel(r: Expression, e: Expression) -> bool
    decreases e,
{
    match (r, e) {
        (Expression::BooleanGroup(o2, g2), Expression::BooleanGroup(o, g)) => o2 == o && g2.len() == g.len() && forall|i: int| 0 <= i < g.len() ==> rw_rel(g2[i], #[trigger] g[i]),
        (Expression::BooleanExpression(l2, o2, r2), Expression::BooleanExpression(l, o, r1)) => o2 == o && rw_rel(*l2, *l) && rw_rel(*r2, *r1),
        (Expression::Match(m2, x2), Expression::Match(m, x)) => m2 == m && rw_rel(*x2, *x),
        (Expression::Negate(x2), Expression::Negate(x)) => rw_rel(*x2, *x),
        (Expression::Nested(f2, x2), Expression::Nested(f, x)) => f2 == f && rw_rel(*x2, *x),
        (Expression::Search(k2, f2, c2), Expression::Search(k, f, c)) => f2 == f && c2 == c && same_shape(k2, k),
        _ => r == e,
    }
}

pub proof fn lemma_rw_refl(e: Expression)
    ensures rw_rel(e, e),
    decreases e,
{
    match e {
        Expression::BooleanGroup(_, g) => { assert forall|i: int| 0 <= i < g.len() implies rw_rel(g[i], #[trigger] g[i]) by { lemma_rw_refl(g[i]); } },
        Expression::BooleanExpression(l, _, r) => { lemma_rw_refl(*l); lemma_rw_refl(*r); },
        Expression::Match(_, x) => { lemma_rw_refl(*x); },
        Expression::Negate(x) => { lemma_rw_refl(*x); },
        Expression::Nested(_, x) => { lemma_rw_refl(*x); },
        _ => {},
    }
}

// the relation keeps well-formedness, solvability, operands of comparisons and the keys asked of a document
pub proof fn lemma_rw_wf(r: Expression, e: Expression, ids: Ids)
    requires rw_rel(r, e),
    ensures
        solvable(r) == solvable(e),
        is_leaf(e) ==> r == e,
        is_term(e) ==> is_term(r),
        wf(e, ids) ==> wf(r, ids),   // P:C03
    decreases e,
{
    match (r, e) {
        (Expression::BooleanGroup(o2, g2), Expression::BooleanGroup(o, g)) => {
            assert forall|i: int| 0 <= i < g.len() implies solvable(g2[i]) == solvable(#[trigger] g[i]) && (wf(g[i], ids) ==> wf(g2[i], ids)) by { lemma_rw_wf(g2[i], g[i], ids); }
            if wf(e, ids) {
                assert forall|i: int| 0 <= i < g2.len() implies solvable(#[trigger] g2[i]) && wf(g2[i], ids) by { assert(solvable(g[i]) && wf(g[i], ids)); }
            }
        },
        (Expression::BooleanExpression(l2, o2, r2), Expression::BooleanExpression(l, o, r1)) => { lemma_rw_wf(*l2, *l, ids); lemma_rw_wf(*r2, *r1, ids); },
        (Expression::Match(m2, x2), Expression::Match(m, x)) => { lemma_rw_wf(*x2, *x, ids); },
        (Expression::Negate(x2), Expression::Negate(x)) => { lemma_rw_wf(*x2, *x, ids); },
        (Expression::Nested(f2, x2), Expression::Nested(f, x)) => { lemma_rw_wf(*x2, *x, ids); },
        _ => {},
    }
}

// the rewritten expression asks a document for exactly the keys the original asks for (C16); inside a nested block the same
// holds for the block's body on the nested object (rw_rel relates the bodies, so this lemma applies to them as well)
pub proof fn lemma_rw_asks(r: Expression, e: Expression, ids: Ids, k: Seq<char>)
    requires rw_rel(r, e),
    ensures asks(r, ids, k) == asks(e, ids, k),   // P:C16
    decreases e,
{
    match (r, e) {
        (Expression::BooleanGroup(o2, g2), Expression::BooleanGroup(o, g)) => {
            assert forall|i: int| 0 <= i < g.len() implies asks(g2[i], ids, k) == asks(#[trigger] g[i], ids, k) by { lemma_rw_asks(g2[i], g[i], ids, k); }
            if asks(r, ids, k) { let i = choose|i: int| 0 <= i < g2.len() && asks(#[trigger] g2[i], ids, k); assert(asks(g[i], ids, k)); }
            if asks(e, ids, k) { let i = choose|i: int| 0 <= i < g.len() && asks(#[trigger] g[i], ids, k); assert(asks(g2[i], ids, k)); }
        },
        (Expression::BooleanExpression(l2, o2, r2), Expression::BooleanExpression(l, o, r1)) => {
            lemma_rw_asks(*l2, *l, ids, k); lemma_rw_asks(*r2, *r1, ids, k);
            lemma_rw_wf(*l2, *l, ids); lemma_rw_wf(*r2, *r1, ids);
            if is_cmp(o) { lemma_rw_operand(*l2, *l); lemma_rw_operand(*r2, *r1); }
        },
        (Expression::Match(m2, x2), Expression::Match(m, x)) => { lemma_rw_asks(*x2, *x, ids, k); },
        (Expression::Negate(x2), Expression::Negate(x)) => { lemma_rw_asks(*x2, *x, ids, k); },
        _ => {},
    }
}

pub proof fn lemma_rw_operand(r: Expression, e: Expression)
    requires rw_rel(r, e),
    ensures operand_key(r) == operand_key(e),
{
}

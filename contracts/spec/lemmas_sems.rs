// ---- spec/lemmas_sems.rs: sems() of a group is defined elementwise (shared by the optimiser and matrix units)
pub proof fn lemma_has_ident_elem(op: BoolSym, v: Vec<Expression>, i: int)
    requires 0 <= i < v.len(), has_ident(v[i]),
    ensures has_ident(Expression::BooleanGroup(op, v)),
{
    let e = Expression::BooleanGroup(op, v);
    assert(e->BooleanGroup_1 == v);
    assert(has_ident(e) == (exists|k: int| 0 <= k < v.len() && has_ident(#[trigger] v[k])));
}

pub proof fn lemma_sems_defined(op: BoolSym, v: Vec<Expression>, ids: Ids, d: DocM)
    ensures
        sems(v, ids, d, Expression::BooleanGroup(op, v)).len() == v.len(),
        forall|i: int| 0 <= i < v.len() ==> #[trigger] sems(v, ids, d, Expression::BooleanGroup(op, v))[i] == sem3(v[i], ids, d),
{
    let e = Expression::BooleanGroup(op, v);
    assert forall|i: int| 0 <= i < v.len() implies decreases_to!(e => #[trigger] v[i]) && lvl(v[i]) <= lvl(e) by {
        if has_ident(v[i]) { lemma_has_ident_elem(op, v, i); }
    }
}


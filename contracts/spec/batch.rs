// ---- spec/batch.rs: the list batching of parse_mapping (C07, C08, C17)
//
// A list of string patterns on one field is sorted by kind into five vectors; the block under contract merges them into
// at most four searches: the case-sensitive plain patterns (needles / context: one AhoCorasick automaton, or the plain
// std search when there is exactly one), the case-insensitive ones (ineedles / icontext), and the two regex sets.
// The contract: the searches, taken together, match a string exactly when some member of the list matches it on its
// own; every automaton's pattern ids index its context vector, entry by entry the needle the context entry names.

// UTF-8 encoding is injective
#[verifier::external_body]
pub proof fn axiom_utf8_injective(a: Seq<char>, b: Seq<char>)
    requires bytes(a) == bytes(b),
    ensures a == b,
{
}

pub open spec fn lc(b: u8) -> u8 { if 65 <= b && b <= 90 { (b + 32) as u8 } else { b } }

// needle n occurs in haystack h at byte offset k (ASCII-case-insensitively if ci)
pub open spec fn occ(n: Seq<u8>, h: Seq<u8>, k: int, ci: bool) -> bool {
    if ci { 0 <= k && k + n.len() <= h.len() && forall|j: int| 0 <= j < n.len() ==> lc(#[trigger] h[k + j]) == lc(n[j]) }
    else { is_sub_at(n, h, k) }
}

pub open spec fn mt_text(m: MatchType) -> Seq<char> {
    match m {
        MatchType::Contains(s) => s@,
        MatchType::EndsWith(s) => s@,
        MatchType::Exact(s) => s@,
        MatchType::StartsWith(s) => s@,
    }
}

// what one plain list member means on a string x
#[verifier::opaque]
pub open spec fn member_rel(m: MatchType, ci: bool, x: Seq<char>) -> bool {
    let n = bytes(mt_text(m));
    let h = bytes(x);
    match m {
        MatchType::Contains(_) => exists|k: int| occ(n, h, k, ci),
        MatchType::StartsWith(_) => occ(n, h, 0, ci),
        MatchType::EndsWith(_) => occ(n, h, h.len() - n.len(), ci),
        MatchType::Exact(_) => n.len() == h.len() && occ(n, h, 0, ci),
    }
}

// the automaton built from needles ns reports (overlapping iteration) exactly the occurrences of its needles
pub open spec fn ac_of(a: &AhoCorasick, ns: Seq<Seq<char>>, ci: bool) -> bool {
    forall|v: Seq<char>| #![trigger ac_hits(a, v)] {
        &&& forall|k: int| 0 <= k < ac_hits(a, v).len() ==> {
                let h = #[trigger] ac_hits(a, v)[k];
                let p = pid(ac_pattern(h)) as int;
                p < ns.len() && ac_end(h) == ac_start(h) + bytes(ns[p]).len() && occ(bytes(ns[p]), bytes(v), ac_start(h) as int, ci)
            }
        &&& forall|p: int, s: int| 0 <= p < ns.len() && #[trigger] occ(bytes(ns[p]), bytes(v), s, ci) ==>
                exists|k: int| 0 <= k < ac_hits(a, v).len() && pid(ac_pattern(#[trigger] ac_hits(a, v)[k])) == p && ac_start(ac_hits(a, v)[k]) == s
    }
}

pub open spec fn mt_string(m: MatchType) -> String {
    match m { MatchType::Contains(s) => s, MatchType::EndsWith(s) => s, MatchType::Exact(s) => s, MatchType::StartsWith(s) => s }
}

// context entry i names needle i
pub open spec fn aligned(ctx: Seq<MatchType>, ns: Seq<String>) -> bool {
    ctx.len() == ns.len() && forall|i: int| 0 <= i < ctx.len() ==> mt_text(#[trigger] ctx[i]) == ns[i]@
}

pub open spec fn texts(ns: Seq<String>) -> Seq<Seq<char>> { Seq::new(ns.len(), |i: int| ns[i]@) }

pub open spec fn any_ctx(ctx: Seq<MatchType>, ci: bool, x: Seq<char>) -> bool {
    exists|i: int| 0 <= i < ctx.len() && member_rel(#[trigger] ctx[i], ci, x)
}

// ---- a merged automaton means "some member matches", and each member is hit exactly when it matches (C07, C08)
pub proof fn lemma_ac_member(a: &AhoCorasick, m: Seq<MatchType>, ns: Seq<String>, ci: bool, x: Seq<char>, p: int)
    requires ac_of(a, texts(ns), ci), aligned(m, ns), 0 <= p < m.len(),
    ensures pat_hit(a, m, x, p) == member_rel(m[p], ci, x),
{
    reveal(member_rel);
    let hits = ac_hits(a, x);
    let n = bytes(mt_text(m[p]));
    let h = bytes(x);
    assert(texts(ns)[p] == mt_text(m[p]));
    if pat_hit(a, m, x, p) {
        let k = choose|k: int| 0 <= k < hits.len() && pid(ac_pattern(#[trigger] hits[k])) == p && ac_accepts(m, hits[k], x);
        let hk = hits[k];
        assert(occ(n, h, ac_start(hk) as int, ci) && ac_end(hk) == ac_start(hk) + n.len());
        assert(member_rel(m[p], ci, x));
    }
    if member_rel(m[p], ci, x) {
        let s: int = match m[p] {
            MatchType::Contains(_) => choose|k: int| occ(n, h, k, ci),
            MatchType::StartsWith(_) => 0,
            MatchType::EndsWith(_) => h.len() - n.len(),
            MatchType::Exact(_) => 0,
        };
        assert(occ(bytes(texts(ns)[p]), h, s, ci));
        let k = choose|k: int| 0 <= k < hits.len() && pid(ac_pattern(#[trigger] hits[k])) == p && ac_start(hits[k]) == s;
        let hk = hits[k];
        assert(ac_end(hk) == ac_start(hk) + n.len());
        assert(ac_accepts(m, hk, x));
        assert(pat_hit(a, m, x, p));
    }
}

pub proof fn lemma_ac_any(a: &AhoCorasick, m: Seq<MatchType>, ns: Seq<String>, ci: bool, x: Seq<char>)
    requires ac_of(a, texts(ns), ci), aligned(m, ns),
    ensures
        (exists|k: int| 0 <= k < ac_hits(a, x).len() && ac_accepts(m, #[trigger] ac_hits(a, x)[k], x)) == any_ctx(m, ci, x),
        forall|k: int| 0 <= k < ac_hits(a, x).len() ==> pid(ac_pattern(#[trigger] ac_hits(a, x)[k])) < m.len(),
{
    let hits = ac_hits(a, x);
    if exists|k: int| 0 <= k < hits.len() && ac_accepts(m, #[trigger] hits[k], x) {
        let k = choose|k: int| 0 <= k < hits.len() && ac_accepts(m, #[trigger] hits[k], x);
        let p = pid(ac_pattern(hits[k])) as int;
        assert(pat_hit(a, m, x, p));
        lemma_ac_member(a, m, ns, ci, x, p);
        assert(member_rel(m[p], ci, x));
    }
    if any_ctx(m, ci, x) {
        let p = choose|i: int| 0 <= i < m.len() && member_rel(#[trigger] m[i], ci, x);
        lemma_ac_member(a, m, ns, ci, x, p);
        assert(pat_hit(a, m, x, p));
    }
    assert forall|k: int| 0 <= k < hits.len() implies pid(ac_pattern(#[trigger] hits[k])) < m.len() by {
        assert(pid(ac_pattern(hits[k])) < texts(ns).len());
    }
}

// ---- a single case-sensitive member is searched with the std functions: the same relation
pub open spec fn single_kind(m: MatchType) -> Search {
    match m {
        MatchType::Contains(c) => Search::Contains(c),
        MatchType::EndsWith(c) => Search::EndsWith(c),
        MatchType::Exact(c) => Search::Exact(c),
        MatchType::StartsWith(c) => Search::StartsWith(c),
    }
}

pub proof fn lemma_single_kind(m: MatchType, x: Seq<char>)
    ensures search_rel(single_kind(m), x) == member_rel(m, false, x),
{
    reveal(member_rel);
    let n = bytes(mt_text(m));
    let h = bytes(x);
    match m {
        MatchType::Exact(c) => {
            assert(search_rel(single_kind(m), x) == (c@ == x));
            assert(member_rel(m, false, x) == (n.len() == h.len() && is_sub_at(n, h, 0)));
            if n.len() == h.len() && is_sub_at(n, h, 0) {
                assert(h.subrange(0, h.len() as int) =~= h);
                assert(bytes(c@) == bytes(x));
                axiom_utf8_injective(c@, x);
            }
            if c@ == x { assert(h.subrange(0, h.len() as int) =~= h); }
        },
        MatchType::Contains(c) => {
            assert(search_rel(single_kind(m), x) == b_contains(h, n));
            assert(member_rel(m, false, x) == (exists|k: int| occ(n, h, k, false)));
            if b_contains(h, n) { let k = choose|k: int| is_sub_at(n, h, k); assert(occ(n, h, k, false)); }
            if exists|k: int| occ(n, h, k, false) { let k = choose|k: int| occ(n, h, k, false); assert(is_sub_at(n, h, k)); }
        },
        MatchType::EndsWith(c) => {
            assert(search_rel(single_kind(m), x) == b_ends_with(h, n));
        },
        MatchType::StartsWith(c) => {
            assert(search_rel(single_kind(m), x) == b_starts_with(h, n));
        },
    }
}

// ---- what a list member means on a string
pub open spec fn ident_rel(i: Identifier, x: Seq<char>) -> bool {
    match i.pattern {
        Pattern::Contains(s) => member_rel(MatchType::Contains(s), i.ignore_case, x),
        Pattern::EndsWith(s) => member_rel(MatchType::EndsWith(s), i.ignore_case, x),
        Pattern::Exact(s) => member_rel(MatchType::Exact(s), i.ignore_case, x),
        Pattern::StartsWith(s) => member_rel(MatchType::StartsWith(s), i.ignore_case, x),
        Pattern::Regex(r) => regex_is_match(&r, x),
        _ => false,
    }
}

pub open spec fn any_ident(v: Seq<Identifier>, x: Seq<char>) -> bool {
    exists|j: int| 0 <= j < v.len() && ident_rel(#[trigger] v[j], x)
}
pub open spec fn any_regex(v: Seq<Regex>, x: Seq<char>) -> bool {
    exists|j: int| 0 <= j < v.len() && regex_is_match(&#[trigger] v[j], x)
}
// the searches of a group, taken together
pub open spec fn any_group(g: Seq<Expression>, x: Seq<char>) -> bool {
    exists|k: int| 0 <= k < g.len() && (#[trigger] g[k]) is Search && search_rel(g[k]->Search_0, x)
}
// what has been merged or is waiting to be merged
pub open spec fn acc(context: Seq<MatchType>, icontext: Seq<MatchType>, group: Seq<Expression>, rs: Seq<Regex>, irs: Seq<Regex>, x: Seq<char>) -> bool {
    any_ctx(context, false, x) || any_ctx(icontext, true, x) || any_group(group, x) || any_regex(rs, x) || any_regex(irs, x)
}

pub open spec fn kinds_ok(v: Seq<Identifier>, k: int) -> bool {
    forall|j: int| 0 <= j < v.len() ==> match (#[trigger] v[j]).pattern {
        Pattern::StartsWith(_) => k == 1,
        Pattern::Contains(_) => k == 2,
        Pattern::EndsWith(_) => k == 3,
        Pattern::Exact(_) => k == 4,
        Pattern::Regex(_) => k == 5,
        _ => false,
    }
}

// every search of the group addresses field f with the same cast flag, and its automaton is consistent
pub open spec fn group_ok(g: Seq<Expression>, f: String, cast: bool) -> bool {
    forall|k: int| 0 <= k < g.len() ==> (#[trigger] g[k]) is Search && g[k]->Search_1 == f && g[k]->Search_2 == cast && search_wf(g[k]->Search_0)
}

// ---- step facts
pub proof fn lemma_any_ctx_push(c: Seq<MatchType>, m: MatchType, ci: bool, x: Seq<char>)
    ensures any_ctx(c.push(m), ci, x) == (any_ctx(c, ci, x) || member_rel(m, ci, x)),
{
    let c2 = c.push(m);
    if any_ctx(c2, ci, x) {
        let i = choose|i: int| 0 <= i < c2.len() && member_rel(#[trigger] c2[i], ci, x);
        if i < c.len() { assert(c[i] == c2[i]); }
    }
    if any_ctx(c, ci, x) {
        let i = choose|i: int| 0 <= i < c.len() && member_rel(#[trigger] c[i], ci, x);
        assert(c2[i] == c[i]);
    }
    if member_rel(m, ci, x) { assert(c2[c.len() as int] == m); }
}

pub proof fn lemma_any_regex_push(c: Seq<Regex>, r: Regex, x: Seq<char>)
    ensures any_regex(c.push(r), x) == (any_regex(c, x) || regex_is_match(&r, x)),
{
    let c2 = c.push(r);
    if any_regex(c2, x) {
        let i = choose|i: int| 0 <= i < c2.len() && regex_is_match(&#[trigger] c2[i], x);
        if i < c.len() { assert(c[i] == c2[i]); }
    }
    if any_regex(c, x) {
        let i = choose|i: int| 0 <= i < c.len() && regex_is_match(&#[trigger] c[i], x);
        assert(c2[i] == c[i]);
    }
    if regex_is_match(&r, x) { assert(c2[c.len() as int] == r); }
}

pub proof fn lemma_any_group_push(g: Seq<Expression>, e: Expression, x: Seq<char>)
    ensures any_group(g.push(e), x) == (any_group(g, x) || (e is Search && search_rel(e->Search_0, x))),
{
    let g2 = g.push(e);
    if any_group(g2, x) {
        let i = choose|i: int| 0 <= i < g2.len() && (#[trigger] g2[i]) is Search && search_rel(g2[i]->Search_0, x);
        if i < g.len() { assert(g[i] == g2[i]); }
    }
    if any_group(g, x) {
        let i = choose|i: int| 0 <= i < g.len() && (#[trigger] g[i]) is Search && search_rel(g[i]->Search_0, x);
        assert(g2[i] == g[i]);
    }
    if e is Search && search_rel(e->Search_0, x) { assert(g2[g.len() as int] == e); }
}

pub proof fn lemma_any_ident_take(v: Seq<Identifier>, i: int, x: Seq<char>)
    requires 0 <= i < v.len(),
    ensures any_ident(v.take(i + 1), x) == (any_ident(v.take(i), x) || ident_rel(v[i], x)),
{
    let a = v.take(i);
    let b = v.take(i + 1);
    if any_ident(b, x) {
        let j = choose|j: int| 0 <= j < b.len() && ident_rel(#[trigger] b[j], x);
        if j < i { assert(a[j] == b[j]); }
    }
    if any_ident(a, x) {
        let j = choose|j: int| 0 <= j < a.len() && ident_rel(#[trigger] a[j], x);
        assert(b[j] == a[j]);
    }
    if ident_rel(v[i], x) { assert(b[i] == v[i]); }
}

pub proof fn lemma_group_ok_push(g: Seq<Expression>, e: Expression, f: String, cast: bool)
    requires group_ok(g, f, cast), e is Search, e->Search_1 == f, e->Search_2 == cast, search_wf(e->Search_0),
    ensures group_ok(g.push(e), f, cast),
{
    let g2 = g.push(e);
    assert forall|k: int| 0 <= k < g2.len() implies (#[trigger] g2[k]) is Search && g2[k]->Search_1 == f && g2[k]->Search_2 == cast && search_wf(g2[k]->Search_0) by {
        if k < g.len() { assert(g2[k] == g[k]); }
    }
}

// all members of the list
pub open spec fn any_member(sw: Seq<Identifier>, ct: Seq<Identifier>, ew: Seq<Identifier>, ex: Seq<Identifier>, rx: Seq<Identifier>, x: Seq<char>) -> bool {
    any_ident(sw, x) || any_ident(ct, x) || any_ident(ew, x) || any_ident(ex, x) || any_ident(rx, x)
}

// an empty exact pattern is kept out of the automata: it matches the empty string only, with or without case folding
pub proof fn lemma_exact_empty(s: String, ci: bool, x: Seq<char>)
    requires s@.len() == 0,
    ensures member_rel(MatchType::Exact(s), ci, x) == (s@ == x),
{
    reveal(member_rel);
    let n = bytes(s@);
    let h = bytes(x);
    assert(s@ =~= Seq::<char>::empty());
    assert(n =~= Seq::<u8>::empty()) by { reveal_with_fuel(vstd::utf8::encode_utf8, 2); }
    if n.len() == h.len() {
        assert(h =~= n);
        axiom_utf8_injective(s@, x);
    }
    if s@ == x { assert(h == n); }
    assert(h.subrange(0, 0) =~= n);
    assert(occ(n, h, 0, ci));
}

// all(k): [x] and of(k, 1): [x] mean x when x is not a merged search (why parse_mapping may drop the quantifier there)
pub proof fn lemma_single_quant(m: Match, x: Expression, ids: Ids, d: DocM)
    requires
        m == Match::All || m == Match::Of(1),
        !(x is BooleanGroup) && !(x is Identifier) && !(x is Matrix),
        x is Search ==> !is_merged(x->Search_0),
    ensures
        sem3(Expression::Match(m, Box::new(x)), ids, d) == sem3(x, ids, d),   // P:C08
{
    let e = Expression::Match(m, Box::new(x));
    assert(match_target(x, ids) == x);
    if m == Match::Of(1) {
        lemma_of3_single(sem3(x, ids, d), 1);
        assert(sem3(e, ids, d) == sem_of_leaf(x, 1, ids, d));
        assert(sem_of_leaf(x, 1, ids, d) == of3(seq![sem3(x, ids, d)], 1));
    } else {
        assert(sem3(e, ids, d) == sem_all_leaf(x, ids, d));
        assert(sem_all_leaf(x, ids, d) == sem3(x, ids, d));
    }
}

// the merged search over an automaton that satisfies the builder's contract
pub proof fn lemma_ac_search(a: AhoCorasick, m: Vec<MatchType>, ns: Seq<String>, ci: bool, flag: bool)
    requires ac_of(&a, texts(ns), ci), aligned(m@, ns),
    ensures
        forall|x: Seq<char>| #[trigger] search_rel(Search::AhoCorasick(Box::new(a), m, flag), x) == any_ctx(m@, ci, x),
        search_wf(Search::AhoCorasick(Box::new(a), m, flag)),
{
    let k = Search::AhoCorasick(Box::new(a), m, flag);
    assert forall|x: Seq<char>| #[trigger] search_rel(k, x) == any_ctx(m@, ci, x) by {
        lemma_ac_any(&a, m@, ns, ci, x);
        let hits = ac_hits(&a, x);
        assert(k->AhoCorasick_0 == Box::new(a) && k->AhoCorasick_1 == m);
        if search_rel(k, x) {
            let j = choose|j: int| 0 <= j < ac_hits(&*k->AhoCorasick_0, x).len() && ac_accepts(k->AhoCorasick_1@, #[trigger] ac_hits(&*k->AhoCorasick_0, x)[j], x);
            assert(ac_accepts(m@, hits[j], x));
        }
        if exists|j: int| 0 <= j < hits.len() && ac_accepts(m@, #[trigger] hits[j], x) {
            let j = choose|j: int| 0 <= j < hits.len() && ac_accepts(m@, #[trigger] hits[j], x);
            assert(ac_accepts(k->AhoCorasick_1@, ac_hits(&*k->AhoCorasick_0, x)[j], x));
            assert(search_rel(k, x));
        }
    }
    assert forall|v: Seq<char>, j: int| 0 <= j < ac_hits(&a, v).len() implies pid(ac_pattern(#[trigger] ac_hits(&a, v)[j])) < m@.len() by {
        lemma_ac_any(&a, m@, ns, ci, v);
    }
}

// ---- shake_1 re-merges the plain searches of one (field, cast, case) key: pairs (context entry, needle)
pub open spec fn any_pair(s: Seq<(MatchType, String)>, ci: bool, x: Seq<char>) -> bool {
    exists|j: int| 0 <= j < s.len() && member_rel((#[trigger] s[j]).0, ci, x)
}
pub open spec fn pairs_split(s: Seq<(MatchType, String)>, c: Seq<MatchType>, ns: Seq<String>) -> bool {
    c.len() == s.len() && ns.len() == s.len() && forall|i: int| 0 <= i < s.len() ==> c[i] == (#[trigger] s[i]).0 && ns[i] == s[i].1
}
pub proof fn lemma_pairs_aligned(s: Seq<(MatchType, String)>, c: Seq<MatchType>, ns: Seq<String>)
    requires pairs_split(s, c, ns), forall|j: int| 0 <= j < s.len() ==> mt_text((#[trigger] s[j]).0) == s[j].1@,
    ensures aligned(c, ns),
{
    assert forall|i: int| 0 <= i < c.len() implies mt_text(#[trigger] c[i]) == ns[i]@ by { assert(c[i] == s[i].0); }
}
pub proof fn lemma_pairs_any(s: Seq<(MatchType, String)>, c: Seq<MatchType>, ns: Seq<String>, ci: bool, x: Seq<char>)
    requires pairs_split(s, c, ns),
    ensures any_ctx(c, ci, x) == any_pair(s, ci, x),
{
    if any_ctx(c, ci, x) { let i = choose|i: int| 0 <= i < c.len() && member_rel(#[trigger] c[i], ci, x); assert(s[i].0 == c[i]); }
    if any_pair(s, ci, x) { let j = choose|j: int| 0 <= j < s.len() && member_rel((#[trigger] s[j]).0, ci, x); assert(c[j] == s[j].0); }
}
// exactly one of the five vectors grew, by one element at its end
pub open spec fn grew(a: Seq<Expression>, b: Seq<Expression>) -> bool { b.len() == a.len() + 1 && b.drop_last() =~= a }
pub open spec fn grew_one(c0: Seq<Expression>, c1: Seq<Expression>, e0: Seq<Expression>, e1: Seq<Expression>, x0: Seq<Expression>, x1: Seq<Expression>,
    s0: Seq<Expression>, s1: Seq<Expression>, a0: Seq<Expression>, a1: Seq<Expression>) -> bool {
    ||| (grew(c0, c1) && e1 =~= e0 && x1 =~= x0 && s1 =~= s0 && a1 =~= a0)
    ||| (c1 =~= c0 && grew(e0, e1) && x1 =~= x0 && s1 =~= s0 && a1 =~= a0)
    ||| (c1 =~= c0 && e1 =~= e0 && grew(x0, x1) && s1 =~= s0 && a1 =~= a0)
    ||| (c1 =~= c0 && e1 =~= e0 && x1 =~= x0 && grew(s0, s1) && a1 =~= a0)
    ||| (c1 =~= c0 && e1 =~= e0 && x1 =~= x0 && s1 =~= s0 && grew(a0, a1))
}
// x is the element that was added
pub open spec fn is_new(x: Expression, c0: Seq<Expression>, c1: Seq<Expression>, e0: Seq<Expression>, e1: Seq<Expression>, x0: Seq<Expression>, x1: Seq<Expression>,
    s0: Seq<Expression>, s1: Seq<Expression>, a0: Seq<Expression>, a1: Seq<Expression>) -> bool {
    ||| (c1.len() > c0.len() && x == c1.last())
    ||| (e1.len() > e0.len() && x == e1.last())
    ||| (x1.len() > x0.len() && x == x1.last())
    ||| (s1.len() > s0.len() && x == s1.last())
    ||| (a1.len() > a0.len() && x == a1.last())
}

// ---- a single string value on a key: numeric prefixes become comparisons (C09), everything else one search (C07)
pub open spec fn num_cmp(p: Pattern) -> Option<(BoolSym, Expression)> {
    match p {
        Pattern::Equal(i) => Some((BoolSym::Equal, Expression::Integer(i))),
        Pattern::GreaterThan(i) => Some((BoolSym::GreaterThan, Expression::Integer(i))),
        Pattern::GreaterThanOrEqual(i) => Some((BoolSym::GreaterThanOrEqual, Expression::Integer(i))),
        Pattern::LessThan(i) => Some((BoolSym::LessThan, Expression::Integer(i))),
        Pattern::LessThanOrEqual(i) => Some((BoolSym::LessThanOrEqual, Expression::Integer(i))),
        Pattern::FEqual(i) => Some((BoolSym::Equal, Expression::Float(i))),
        Pattern::FGreaterThan(i) => Some((BoolSym::GreaterThan, Expression::Float(i))),
        Pattern::FGreaterThanOrEqual(i) => Some((BoolSym::GreaterThanOrEqual, Expression::Float(i))),
        Pattern::FLessThan(i) => Some((BoolSym::LessThan, Expression::Float(i))),
        Pattern::FLessThanOrEqual(i) => Some((BoolSym::LessThanOrEqual, Expression::Float(i))),
        _ => None,
    }
}

// what one pattern means on a string, including `*`
pub open spec fn pattern_rel(i: Identifier, x: Seq<char>) -> bool {
    match i.pattern {
        Pattern::Any => true,
        _ => ident_rel(i, x),
    }
}

// an automaton over one needle with its one context entry
pub proof fn lemma_ac_one(a: AhoCorasick, m: Vec<MatchType>, ns: Seq<String>, ci: bool)
    requires ac_of(&a, texts(ns), ci), m@.len() == 1, ns.len() == 1, mt_text(m@[0]) == ns[0]@,
    ensures
        forall|x: Seq<char>| #[trigger] search_rel(Search::AhoCorasick(Box::new(a), m, ci), x) == member_rel(m@[0], ci, x),
        search_wf(Search::AhoCorasick(Box::new(a), m, ci)),
{
    lemma_ac_search(a, m, ns, ci, ci);
    assert forall|x: Seq<char>| any_ctx(m@, ci, x) == member_rel(m@[0], ci, x) by {}
}

// sorting a member into the vector of its kind keeps kinds_ok (the precondition of the batching block)
pub proof fn lemma_kinds_push(v: Seq<Identifier>, i: Identifier, k: int)
    requires kinds_ok(v, k), kinds_ok(seq![i], k),
    ensures kinds_ok(v.push(i), k),
{
    let v2 = v.push(i);
    assert(seq![i][0] == i);
    assert forall|j: int| 0 <= j < v2.len() implies match (#[trigger] v2[j]).pattern {
        Pattern::StartsWith(_) => k == 1, Pattern::Contains(_) => k == 2, Pattern::EndsWith(_) => k == 3, Pattern::Exact(_) => k == 4, Pattern::Regex(_) => k == 5, _ => false,
    } by {
        if j < v.len() { assert(v2[j] == v[j]); } else { assert(v2[j] == i); }
    }
}

// no search of the group is a merged one (automaton / regex set)
pub open spec fn no_merged(g: Seq<Expression>) -> bool {
    forall|k: int| 0 <= k < g.len() && (#[trigger] g[k]) is Search ==> !is_merged(g[k]->Search_0)
}
pub proof fn lemma_no_merged_push(g: Seq<Expression>, e: Expression)
    ensures no_merged(g.push(e)) == (no_merged(g) && !(e is Search && is_merged(e->Search_0))),
{
    let g2 = g.push(e);
    if no_merged(g2) {
        assert forall|k: int| 0 <= k < g.len() && (#[trigger] g[k]) is Search implies !is_merged(g[k]->Search_0) by { assert(g2[k] == g[k]); }
        assert(g2[g.len() as int] == e);
    }
    if no_merged(g) && !(e is Search && is_merged(e->Search_0)) {
        assert forall|k: int| 0 <= k < g2.len() && (#[trigger] g2[k]) is Search implies !is_merged(g2[k]->Search_0) by {
            if k < g.len() { assert(g2[k] == g[k]); } else { assert(g2[k] == e); }
        }
    }
}

// ---- regex members: each regex was built from its own text with its case flag (what into_identifier establishes)
pub open spec fn regex_from(r: Regex, ci: bool) -> bool { regex_of(regex_text(&r), ci) == Some(r) }
pub open spec fn regexes_from(rs: Seq<Regex>, ci: bool) -> bool { forall|i: int| 0 <= i < rs.len() ==> regex_from(#[trigger] rs[i], ci) }

// a set rebuilt from the texts of such regexes, with the same flag, accepts what some member accepts
pub proof fn lemma_rs_any(s: &RegexSet, ts: Seq<String>, rs: Seq<Regex>, ci: bool)
    requires
        rs_of(s, texts(ts), ci), regexes_from(rs, ci),
        ts.len() == rs.len(), forall|i: int| 0 <= i < rs.len() ==> (#[trigger] ts[i])@ == regex_text(&rs[i]),
    ensures
        forall|x: Seq<char>| #[trigger] regexset_is_match(s, x) == any_regex(rs, x),
{
    let pats = texts(ts);
    assert forall|x: Seq<char>| #[trigger] regexset_is_match(s, x) == any_regex(rs, x) by {
        assert forall|i: int| 0 <= i < rs.len() implies pat_lang(#[trigger] pats[i], ci, x) == regex_is_match(&rs[i], x) by {
            assert(pats[i] == ts[i]@);
            assert(regex_from(rs[i], ci));
        }
        if exists|i: int| 0 <= i < pats.len() && pat_lang(#[trigger] pats[i], ci, x) {
            let i = choose|i: int| 0 <= i < pats.len() && pat_lang(#[trigger] pats[i], ci, x);
            assert(regex_is_match(&rs[i], x));
        }
        if any_regex(rs, x) {
            let i = choose|i: int| 0 <= i < rs.len() && regex_is_match(&#[trigger] rs[i], x);
            assert(pat_lang(pats[i], ci, x));
        }
    }
}

// ---- shake_1 rebuilds the regex searches of one (field, cast, case) key from their pattern texts
pub open spec fn any_pat(ps: Seq<String>, n: int, ci: bool, x: Seq<char>) -> bool {
    exists|i: int| 0 <= i < n && i < ps.len() && pat_lang((#[trigger] ps[i])@, ci, x)
}
pub proof fn lemma_any_pat_step(ps: Seq<String>, n: int, ci: bool, x: Seq<char>)
    requires 0 <= n < ps.len(),
    ensures any_pat(ps, n + 1, ci, x) == (any_pat(ps, n, ci, x) || pat_lang(ps[n]@, ci, x)),
{
    if any_pat(ps, n + 1, ci, x) {
        let i = choose|i: int| 0 <= i < n + 1 && i < ps.len() && pat_lang((#[trigger] ps[i])@, ci, x);
        if i < n { assert(any_pat(ps, n, ci, x)); }
    }
    if any_pat(ps, n, ci, x) {
        let i = choose|i: int| 0 <= i < n && i < ps.len() && pat_lang((#[trigger] ps[i])@, ci, x);
        assert(pat_lang(ps[i]@, ci, x));
    }
    if pat_lang(ps[n]@, ci, x) { assert(any_pat(ps, n + 1, ci, x)); }
}
// a set over the texts themselves
pub proof fn lemma_rs_pats(s: &RegexSet, ps: Seq<String>, ci: bool)
    requires rs_of(s, texts(ps), ci),
    ensures forall|x: Seq<char>| #[trigger] regexset_is_match(s, x) == any_pat(ps, ps.len() as int, ci, x),
{
    let pats = texts(ps);
    assert forall|x: Seq<char>| #[trigger] regexset_is_match(s, x) == any_pat(ps, ps.len() as int, ci, x) by {
        if exists|i: int| 0 <= i < pats.len() && pat_lang(#[trigger] pats[i], ci, x) {
            let i = choose|i: int| 0 <= i < pats.len() && pat_lang(#[trigger] pats[i], ci, x);
            assert(pats[i] == ps[i]@);
            assert(any_pat(ps, ps.len() as int, ci, x));
        }
        if any_pat(ps, ps.len() as int, ci, x) {
            let i = choose|i: int| 0 <= i < ps.len() && pat_lang((#[trigger] ps[i])@, ci, x);
            assert(pats[i] == ps[i]@);
            assert(pat_lang(pats[i], ci, x));
        }
    }
}

// ---- spec/scan.rs: the identifier-existence scan of the rule loader (C03)
//
// The loader walks the condition's tokens and rejects the rule if an identifier token names no entry of the detection
// block.  A token two places after a cast / not( modifier is the FIELD of that modifier (`int(` `(` field), not an
// identifier, and is not looked up.
pub open spec fn is_field_position(tokens: Seq<Token>, i: int) -> bool {
    i > 1 && tokens[i - 2] is Modifier
}
pub open spec fn scanned_ok(tokens: Seq<Token>, ids: Map<String, Expression>, n: int) -> bool {
    forall|i: int| 0 <= i < n && i < tokens.len() && (#[trigger] tokens[i]) is Identifier && !is_field_position(tokens, i)
        ==> ids.contains_key(tokens[i]->Identifier_0)
}

// ---- spec/lex.rs: what a condition string lexes to (C05: keywords vs identifiers, white space)
//
// A keyword is recognised only at the start of a token and only together with the character that must follow it:
// `and `, `or `, `not ` (a space), `not(`, `all(`, `of(`, `int(`, `flt(`, `str(`, `string(` (an opening parenthesis, which is
// left in the input).  Anything else that starts with a letter or '#' is an identifier: the longest run of
// alphanumerics, '_', '.', '#', '[', ']'.  Hence `android`, `order`, `nothing`, `allow`, `offline` are identifiers.

pub ghost enum TokM {
    Delimiter(DelSym),
    Float(f64),
    Identifier(Seq<char>),
    Integer(i64),
    Operator(BoolSym),
    Modifier(ModSym),
    Miscellaneous(MiscSym),
    Match(MatchSym),
}

pub open spec fn tokv(t: Token) -> TokM {
    match t {
        Token::Delimiter(d) => TokM::Delimiter(d),
        Token::Float(f) => TokM::Float(f),
        Token::Identifier(s) => TokM::Identifier(s@),
        Token::Integer(i) => TokM::Integer(i),
        Token::Operator(o) => TokM::Operator(o),
        Token::Modifier(m) => TokM::Modifier(m),
        Token::Miscellaneous(m) => TokM::Miscellaneous(m),
        Token::Match(m) => TokM::Match(m),
    }
}
pub open spec fn toks(v: Seq<Token>) -> Seq<TokM> { v.map_values(|t: Token| tokv(t)) }

pub open spec fn ident_char(a: char) -> bool { char_is_alphanumeric(a) || a == '_' || a == '.' || a == '#' || a == '[' || a == ']' }
pub open spec fn num_char(a: char) -> bool { char_is_numeric(a) || a == '.' }

// the longest prefix of s made of number chars / identifier chars
pub open spec fn cls(k: int, a: char) -> bool { if k == 0 { num_char(a) } else { ident_char(a) } }
pub open spec fn run(s: Seq<char>, k: int) -> Seq<char>
    decreases s.len(),
{
    if s.len() > 0 && cls(k, s[0]) { seq![s[0]] + run(s.skip(1), k) } else { Seq::<char>::empty() }
}

// a keyword at the start of s: its token and how many chars it takes (the '(' of `xxx(` stays)
pub open spec fn keyword(s: Seq<char>) -> Option<(TokM, int)> {
    if seq!['f','l','t','('].is_prefix_of(s) { Some((TokM::Modifier(ModSym::Flt), 3)) }
    else if seq!['i','n','t','('].is_prefix_of(s) { Some((TokM::Modifier(ModSym::Int), 3)) }
    else if seq!['s','t','r','i','n','g','('].is_prefix_of(s) { Some((TokM::Modifier(ModSym::Str), 6)) }
    else if seq!['s','t','r','('].is_prefix_of(s) { Some((TokM::Modifier(ModSym::Str), 3)) }
    else if seq!['a','n','d',' '].is_prefix_of(s) { Some((TokM::Operator(BoolSym::And), 3)) }
    else if seq!['o','r',' '].is_prefix_of(s) { Some((TokM::Operator(BoolSym::Or), 2)) }
    else if seq!['n','o','t',' '].is_prefix_of(s) { Some((TokM::Miscellaneous(MiscSym::Not), 3)) }
    else if seq!['n','o','t','('].is_prefix_of(s) { Some((TokM::Modifier(ModSym::Not), 3)) }
    else if seq!['a','l','l','('].is_prefix_of(s) { Some((TokM::Match(MatchSym::All), 3)) }
    else if seq!['o','f','('].is_prefix_of(s) { Some((TokM::Match(MatchSym::Of), 2)) }
    else { None }
}

pub open spec fn cons(t: TokM, r: Option<Seq<TokM>>) -> Option<Seq<TokM>> {
    match r { Some(x) => Some(seq![t] + x), None => None }
}

pub open spec fn is_space(c: char) -> bool { c == ' ' || ('\x09' <= c && c <= '\x0d') }
pub open spec fn is_word_start(c: char) -> bool { ('a' <= c && c <= 'z') || ('A' <= c && c <= 'Z') || c == '#' }
pub open spec fn is_num_start(c: char) -> bool { c == '.' || c == '-' || ('0' <= c && c <= '9') }

// one lexing step (lex_step) and its closure under recursion (lex).  lex is opaque: a proof that needs the step at one
// position asks for it (lemma_lex_unfold) instead of unfolding the recursion at every term in sight.
#[verifier::opaque]
pub open spec fn lex(s: Seq<char>) -> Option<Seq<TokM>>
    decreases s.len(),
{
    if s.len() == 0 { Some(Seq::<TokM>::empty()) }
    else {
        let c = s[0];
        if is_num_start(c) {
            let n = run(s, 0);
            if n.len() == 0 || n.len() > s.len() { None }
            else if b_contains(bytes(n), bytes(seq!['.'])) {
                match parse_f64(n) { Some(f) => cons(TokM::Float(f), lex(s.skip(n.len() as int))), None => None }
            } else {
                match parse_i64(n) { Some(i) => cons(TokM::Integer(i), lex(s.skip(n.len() as int))), None => None }
            }
        } else if is_word_start(c) {
            match keyword(s) {
                Some((t, k)) => if k <= s.len() { cons(t, lex(s.skip(k))) } else { None },
                None => {
                    let id = run(s, 1);
                    if id.len() == 0 || id.len() > s.len() { None } else { cons(TokM::Identifier(id), lex(s.skip(id.len() as int))) }
                },
            }
        } else if is_space(c) { lex(s.skip(1)) }
        else if c == '=' { if s.len() > 1 && s[1] == '=' { cons(TokM::Operator(BoolSym::Equal), lex(s.skip(2))) } else { None } }
        else if c == '<' { if s.len() > 1 && s[1] == '=' { cons(TokM::Operator(BoolSym::LessThanOrEqual), lex(s.skip(2))) } else { cons(TokM::Operator(BoolSym::LessThan), lex(s.skip(1))) } }
        else if c == '>' { if s.len() > 1 && s[1] == '=' { cons(TokM::Operator(BoolSym::GreaterThanOrEqual), lex(s.skip(2))) } else { cons(TokM::Operator(BoolSym::GreaterThan), lex(s.skip(1))) } }
        else if c == ',' { cons(TokM::Delimiter(DelSym::Comma), lex(s.skip(1))) }
        else if c == '(' { cons(TokM::Delimiter(DelSym::LeftParenthesis), lex(s.skip(1))) }
        else if c == ')' { cons(TokM::Delimiter(DelSym::RightParenthesis), lex(s.skip(1))) }
        else { None }
    }
}


pub open spec fn lex_step(s: Seq<char>) -> Option<Seq<TokM>>
{
    if s.len() == 0 { Some(Seq::<TokM>::empty()) }
    else {
        let c = s[0];
        if is_num_start(c) {
            let n = run(s, 0);
            if n.len() == 0 || n.len() > s.len() { None }
            else if b_contains(bytes(n), bytes(seq!['.'])) {
                match parse_f64(n) { Some(f) => cons(TokM::Float(f), lex(s.skip(n.len() as int))), None => None }
            } else {
                match parse_i64(n) { Some(i) => cons(TokM::Integer(i), lex(s.skip(n.len() as int))), None => None }
            }
        } else if is_word_start(c) {
            match keyword(s) {
                Some((t, k)) => if k <= s.len() { cons(t, lex(s.skip(k))) } else { None },
                None => {
                    let id = run(s, 1);
                    if id.len() == 0 || id.len() > s.len() { None } else { cons(TokM::Identifier(id), lex(s.skip(id.len() as int))) }
                },
            }
        } else if is_space(c) { lex(s.skip(1)) }
        else if c == '=' { if s.len() > 1 && s[1] == '=' { cons(TokM::Operator(BoolSym::Equal), lex(s.skip(2))) } else { None } }
        else if c == '<' { if s.len() > 1 && s[1] == '=' { cons(TokM::Operator(BoolSym::LessThanOrEqual), lex(s.skip(2))) } else { cons(TokM::Operator(BoolSym::LessThan), lex(s.skip(1))) } }
        else if c == '>' { if s.len() > 1 && s[1] == '=' { cons(TokM::Operator(BoolSym::GreaterThanOrEqual), lex(s.skip(2))) } else { cons(TokM::Operator(BoolSym::GreaterThan), lex(s.skip(1))) } }
        else if c == ',' { cons(TokM::Delimiter(DelSym::Comma), lex(s.skip(1))) }
        else if c == '(' { cons(TokM::Delimiter(DelSym::LeftParenthesis), lex(s.skip(1))) }
        else if c == ')' { cons(TokM::Delimiter(DelSym::RightParenthesis), lex(s.skip(1))) }
        else { None }
    }
}


pub proof fn lemma_lex_unfold(s: Seq<char>)
    ensures lex(s) == lex_step(s),
{
    reveal_with_fuel(lex, 1);
}

// what is waiting in the input, appended to what has been lexed, is what the whole string lexes to
pub open spec fn lex_inv(all: Seq<char>, done: Seq<Token>, rem: Seq<char>) -> bool {
    lex(all) == (match lex(rem) { Some(r) => Some(toks(done) + r), None => None })
}

// one more token: push it and skip its chars
pub proof fn lemma_lex_step(all: Seq<char>, done: Seq<Token>, rem: Seq<char>, t: Token, k: int)
    requires
        lex_inv(all, done, rem),
        0 < k <= rem.len(),
        lex(rem) == cons(tokv(t), lex(rem.skip(k))),
    ensures
        lex_inv(all, done.push(t), rem.skip(k)),
{
    assert(toks(done.push(t)) =~= toks(done) + seq![tokv(t)]);
    match lex(rem.skip(k)) {
        Some(r) => { assert((toks(done) + seq![tokv(t)]) + r =~= toks(done) + (seq![tokv(t)] + r)); },
        None => {},
    }
}

// consume_while's result is the run
pub proof fn lemma_run(s: Seq<char>, v: Seq<char>, p: int)
    requires
        v.len() <= s.len(),
        v =~= s.take(v.len() as int),
        forall|i: int| 0 <= i < v.len() ==> cls(p, #[trigger] v[i]),
        v.len() == s.len() || !cls(p, s[v.len() as int]),
    ensures run(s, p) == v,
    decreases s.len(),
{
    if s.len() > 0 && cls(p, s[0]) {
        if v.len() == 0 { assert(false); }
        let v2 = v.skip(1);
        let s2 = s.skip(1);
        assert(v2 =~= s2.take(v2.len() as int));
        assert forall|i: int| 0 <= i < v2.len() implies cls(p, #[trigger] v2[i]) by { assert(v2[i] == v[i + 1]); }
        lemma_run(s2, v2, p);
        assert(v =~= seq![s[0]] + v2);
    } else {
        if v.len() > 0 { assert(v[0] == s[0]); assert(cls(p, v[0])); }
        assert(v =~= Seq::<char>::empty());
    }
}

// ---- C05: words that merely begin with keyword letters are identifiers
pub proof fn lemma_word_is_identifier(w: Seq<char>)
    requires
        w.len() > 0, is_word_start(w[0]),
        forall|i: int| 0 <= i < w.len() ==> ident_char(#[trigger] w[i]),
        keyword(w) is None,
    ensures lex(w) == Some(seq![TokM::Identifier(w)]),   // P:C05
{
    lemma_run(w, w, 1);
    lemma_lex_unfold(w);
    lemma_lex_unfold(w.skip(w.len() as int));
    assert(w.skip(w.len() as int) =~= Seq::<char>::empty());
    assert(lex(w.skip(w.len() as int)) == Some(Seq::<TokM>::empty()));
    assert(seq![TokM::Identifier(w)] + Seq::<TokM>::empty() =~= seq![TokM::Identifier(w)]);
}

// leading white space never matters
pub proof fn lemma_leading_space(c: char, s: Seq<char>)
    requires is_space(c),
    ensures lex(seq![c] + s) == lex(s),   // P:C05
{
    lemma_lex_unfold(seq![c] + s);
    assert((seq![c] + s).skip(1) =~= s);
}

// the examples of the property statement
pub proof fn lemma_keywordish_words()
    ensures
        lex("android"@) == Some(seq![TokM::Identifier("android"@)]),   // P:C05
        lex("order"@) == Some(seq![TokM::Identifier("order"@)]),   // P:C05
        lex("nothing"@) == Some(seq![TokM::Identifier("nothing"@)]),   // P:C05
        lex("allow"@) == Some(seq![TokM::Identifier("allow"@)]),   // P:C05
        lex("offline"@) == Some(seq![TokM::Identifier("offline"@)]),   // P:C05
{
    broadcast use axiom_ascii_char_classes;
    reveal_strlit("android"); reveal_strlit("order"); reveal_strlit("nothing"); reveal_strlit("allow"); reveal_strlit("offline");
    lemma_word_is_identifier("android"@);
    lemma_word_is_identifier("order"@);
    lemma_word_is_identifier("nothing"@);
    lemma_word_is_identifier("allow"@);
    lemma_word_is_identifier("offline"@);
}

// ... while the keyword itself, followed by its space, is the operator
pub proof fn lemma_keywords()
    ensures
        lex("a and b"@) == Some(seq![TokM::Identifier("a"@), TokM::Operator(BoolSym::And), TokM::Identifier("b"@)]),   // P:C05
{
    broadcast use axiom_ascii_char_classes;
    broadcast use axiom_ascii_not_alphanumeric;
    reveal_strlit("a and b"); reveal_strlit("a"); reveal_strlit("b");
    let s = "a and b"@;
    lemma_lex_unfold(s);
    lemma_run(s, "a"@, 1);
    assert(keyword(s) is None);
    let s1 = s.skip(1);
    lemma_lex_unfold(s1);
    let s2 = s1.skip(1);
    assert(s2 =~= seq!['a','n','d',' ','b']);
    lemma_lex_unfold(s2);
    let s3 = s2.skip(3);
    assert(s3 =~= seq![' ','b']);
    lemma_lex_unfold(s3);
    let s4 = s3.skip(1);
    assert(s4 =~= seq!['b']);
    lemma_lex_unfold(s4);
    lemma_run(s4, "b"@, 1);
    assert(keyword(s4) is None);
    let s5 = s4.skip(1);
    assert(s5 =~= Seq::<char>::empty());
    lemma_lex_unfold(s5);
    assert(seq![TokM::Identifier("b"@)] + Seq::<TokM>::empty() =~= seq![TokM::Identifier("b"@)]);
    assert(seq![TokM::Operator(BoolSym::And)] + seq![TokM::Identifier("b"@)] =~= seq![TokM::Operator(BoolSym::And), TokM::Identifier("b"@)]);
    assert(seq![TokM::Identifier("a"@)] + seq![TokM::Operator(BoolSym::And), TokM::Identifier("b"@)] =~= seq![TokM::Identifier("a"@), TokM::Operator(BoolSym::And), TokM::Identifier("b"@)]);
}

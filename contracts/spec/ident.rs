// ---- spec/ident.rs: the pattern syntax (C07) and the ignore_case feature (C15)
pub ghost enum PV {
    Any,
    Contains(Seq<char>),
    EndsWith(Seq<char>),
    Exact(Seq<char>),
    StartsWith(Seq<char>),
    Regex(Regex),
    Equal(i64), GreaterThan(i64), GreaterThanOrEqual(i64), LessThan(i64), LessThanOrEqual(i64),
    FEqual(f64), FGreaterThan(f64), FGreaterThanOrEqual(f64), FLessThan(f64), FLessThanOrEqual(f64),
}

pub open spec fn pv(p: Pattern) -> PV {
    match p {
        Pattern::Any => PV::Any,
        Pattern::Contains(s) => PV::Contains(s@),
        Pattern::EndsWith(s) => PV::EndsWith(s@),
        Pattern::Exact(s) => PV::Exact(s@),
        Pattern::StartsWith(s) => PV::StartsWith(s@),
        Pattern::Regex(r) => PV::Regex(r),
        Pattern::Equal(i) => PV::Equal(i),
        Pattern::GreaterThan(i) => PV::GreaterThan(i),
        Pattern::GreaterThanOrEqual(i) => PV::GreaterThanOrEqual(i),
        Pattern::LessThan(i) => PV::LessThan(i),
        Pattern::LessThanOrEqual(i) => PV::LessThanOrEqual(i),
        Pattern::FEqual(i) => PV::FEqual(i),
        Pattern::FGreaterThan(i) => PV::FGreaterThan(i),
        Pattern::FGreaterThanOrEqual(i) => PV::FGreaterThanOrEqual(i),
        Pattern::FLessThan(i) => PV::FLessThan(i),
        Pattern::FLessThanOrEqual(i) => PV::FLessThanOrEqual(i),
    }
}

pub open spec fn has_dot(s: Seq<char>) -> bool { b_contains(bytes(s), bytes(seq!['.'])) }
// the 'i' prefix is ASCII-case-insensitive (C07): the stored text is ASCII-folded, non-ASCII characters stay as written
pub open spec fn fold(ins: bool, t: Seq<char>) -> Seq<char> { if ins { ascii_lower(t) } else { t } }
pub open spec fn first_is(s: Seq<char>, c: char) -> bool { s.len() > 0 && s[0] == c }
pub open spec fn last_is(s: Seq<char>, c: char) -> bool { s.len() > 0 && s[s.len() - 1] == c }

// a numeric comparison body: integer unless it contains a '.'; None = load error
pub open spec fn num_pat(rest: Seq<char>, mk_i: spec_fn(i64) -> PV, mk_f: spec_fn(f64) -> PV) -> Option<PV> {
    if has_dot(rest) {
        match parse_f64(rest) { Some(f) => Some(mk_f(f)), None => None }
    } else {
        match parse_i64(rest) { Some(i) => Some(mk_i(i)), None => None }
    }
}

// The documented pattern syntax: `?re` regex, `>=n` `>n` `<=n` `<n` `=n` numeric comparisons, `*` any,
// `*x*` contains, `*x` ends with, `x*` starts with, quotes make the text literal, otherwise exact.
pub open spec fn classify(ins: bool, s: Seq<char>) -> Option<PV> {
    if first_is(s, '?') {
        match regex_of(s.skip(1), ins) { Some(r) => Some(PV::Regex(r)), None => None }
    } else if prefix_of(seq!['>', '='], s) {
        num_pat(s.skip(2), |i: i64| PV::GreaterThanOrEqual(i), |f: f64| PV::FGreaterThanOrEqual(f))
    } else if first_is(s, '>') {
        num_pat(s.skip(1), |i: i64| PV::GreaterThan(i), |f: f64| PV::FGreaterThan(f))
    } else if prefix_of(seq!['<', '='], s) {
        num_pat(s.skip(2), |i: i64| PV::LessThanOrEqual(i), |f: f64| PV::FLessThanOrEqual(f))
    } else if first_is(s, '<') {
        num_pat(s.skip(1), |i: i64| PV::LessThan(i), |f: f64| PV::FLessThan(f))
    } else if first_is(s, '=') {
        num_pat(s.skip(1), |i: i64| PV::Equal(i), |f: f64| PV::FEqual(f))
    } else if s =~= seq!['*'] {
        Some(PV::Any)
    } else if first_is(s, '*') && last_is(s, '*') {
        Some(PV::Contains(fold(ins, s.subrange(1, s.len() - 1))))
    } else if first_is(s, '*') {
        Some(PV::EndsWith(fold(ins, s.skip(1))))
    } else if last_is(s, '*') {
        Some(PV::StartsWith(fold(ins, s.take(s.len() - 1))))
    } else if s.len() > 1 && ((first_is(s, '"') && last_is(s, '"')) || (first_is(s, '\'') && last_is(s, '\''))) {
        Some(PV::Exact(fold(ins, s.subrange(1, s.len() - 1))))
    } else {
        Some(PV::Exact(fold(ins, s)))
    }
}

// default build: a leading 'i' makes the pattern case-insensitive and is not part of it
pub open spec fn classify_default(text: Seq<char>) -> Option<(bool, PV)> {
    let (ins, s) = if first_is(text, 'i') { (true, text.skip(1)) } else { (false, text) };
    match classify(ins, s) { Some(p) => Some((ins, p)), None => None }
}
// ignore_case build: always insensitive, no prefix is interpreted
pub open spec fn classify_ignore_case(text: Seq<char>) -> Option<(bool, PV)> {
    match classify(true, text) { Some(p) => Some((true, p)), None => None }
}

// C15: the ignore_case build gives each pattern the meaning the default build gives it with 'i' prepended
pub proof fn lemma_ignore_case_is_i_prefix(text: Seq<char>)
    ensures classify_ignore_case(text) == classify_default(seq!['i'] + text),   // P:C15
{
    let t = seq!['i'] + text;
    assert(t.skip(1) =~= text);
}
